#!/usr/bin/env python3
"""Build fecsim from a snapshot of /repo's current working tree.

The library sources are copied (rsync) into /verif/build/src so that a check sees the tree as it is *now* and
is immune to edits while it runs; of_build_config.h is regenerated from its .in with the project's default
options (the generated file is git-ignored in /repo and must not be assumed present). Objects are cached by a
content hash of the snapshot, the simulator sources and the flags: an unchanged tree is not recompiled, a
changed one always is.
"""
import hashlib, os, subprocess, sys, shutil, re
from concurrent.futures import ThreadPoolExecutor

VERIF = os.path.dirname(os.path.dirname(os.path.abspath(__file__)))
REPO = os.environ.get("FECSIM_REPO", "/repo")
BUILD = os.path.join(VERIF, "build")
SIM = os.path.join(VERIF, "sim")

VARIANTS = {
    # AddressSanitizer + array-bounds; UBSan's alignment and shift groups are deliberately off (DESIGN 2.2 / H9)
    "asan": dict(cc="clang", cxx="clang++",
                 cflags=["-O1", "-g", "-fsanitize=address,bounds", "-fno-sanitize-recover=all",
                         "-fno-omit-frame-pointer", "-fno-optimize-sibling-calls", "-fno-pie"],
                 ldflags=["-fsanitize=address,bounds", "-no-pie"]),
    "plain": dict(cc="clang", cxx="clang++",
                  cflags=["-O2", "-g", "-fno-omit-frame-pointer", "-fno-optimize-sibling-calls", "-fno-pie"],
                  ldflags=["-no-pie"]),
}
VARIANTS["cov"] = dict(cc="clang", cxx="clang++",
                       cflags=["-O1", "-g", "-fprofile-instr-generate", "-fcoverage-mapping", "-fno-omit-frame-pointer", "-fno-optimize-sibling-calls", "-fno-pie"],
                       ldflags=["-fprofile-instr-generate", "-no-pie"])     # source-based coverage, for `bin/reach` only
WRAP = "-Wl,--wrap=malloc,--wrap=calloc,--wrap=realloc,--wrap=free,--wrap=rand,--wrap=random,--wrap=lrand48,--wrap=drand48,--wrap=rand_r"
HOOK_DEFINE = "-DOPENFEC_VERIF"   # guard reserved for hooks in /repo (none exist; see MANIFEST.hooks)


def sh(cmd, **kw):
    return subprocess.run(cmd, check=True, **kw)


def snapshot():
    src = os.path.join(BUILD, "src")
    os.makedirs(src, exist_ok=True)
    sh(["rsync", "-a", "--delete", "--exclude", "of_build_config.h",
        os.path.join(REPO, "src") + "/", src + "/"])
    # regenerate the build configuration exactly as CMake's defaults would
    tmpl = open(os.path.join(src, "lib_common", "of_build_config.h.in")).read()
    on = {"OF_USE_REED_SOLOMON_CODEC", "OF_USE_REED_SOLOMON_2_M_CODEC", "OF_USE_LDPC_STAIRCASE_CODEC",
          "OF_USE_2D_PARITY_MATRIX_CODEC"}

    def repl(m):
        return ("#define %s" % m.group(1)) if m.group(1) in on else ("/* #undef %s */" % m.group(1))
    out = re.sub(r"#cmakedefine\s+(\w+)", repl, tmpl)
    cfg = os.path.join(src, "lib_common", "of_build_config.h")
    if not os.path.exists(cfg) or open(cfg).read() != out:
        open(cfg, "w").write(out)
    return src


def tree_hash(root, exts):
    h = hashlib.sha256()
    for d, dirs, files in sorted(os.walk(root)):
        dirs.sort()
        for f in sorted(files):
            if os.path.splitext(f)[1] in exts:
                p = os.path.join(d, f)
                h.update(os.path.relpath(p, root).encode())
                h.update(open(p, "rb").read())
    return h.hexdigest()


def lib_sources(src):
    out = []
    for top in ("lib_common", "lib_stable"):
        for d, _, files in os.walk(os.path.join(src, top)):
            for f in files:
                if f.endswith(".c"):
                    out.append(os.path.join(d, f))
    return sorted(out)


def build(variant="asan", quiet=True):
    """Returns the path of the fecsim binary for this variant, rebuilding whatever changed."""
    v = VARIANTS[variant]
    src = snapshot()
    lib_h = tree_hash(src, {".c", ".h"})
    sim_h = tree_hash(SIM, {".c", ".cc", ".h"})
    flags_h = hashlib.sha256(repr(v).encode()).hexdigest()
    vdir = os.path.join(BUILD, variant)
    os.makedirs(os.path.join(vdir, "lib"), exist_ok=True)
    os.makedirs(os.path.join(vdir, "sim"), exist_ok=True)
    binary = os.path.join(vdir, "fecsim")
    stamp = os.path.join(vdir, "stamp")
    want = "%s %s %s" % (lib_h, sim_h, flags_h)
    if os.path.exists(stamp) and os.path.exists(binary) and open(stamp).read() == want:
        return binary
    old = open(stamp).read().split() if os.path.exists(stamp) else ["", "", ""]
    jobs = []
    inc = ["-I", src, "-I", SIM, "-DOPENFEC_LITTLE_ENDIAN", HOOK_DEFINE]
    objs = []
    rebuild_lib = old[0] != lib_h or old[2] != flags_h
    rebuild_sim = rebuild_lib or old[1] != sim_h     # the adapter includes library headers
    if rebuild_lib:
        shutil.rmtree(os.path.join(vdir, "lib")); os.makedirs(os.path.join(vdir, "lib"))
    for c in lib_sources(src):
        o = os.path.join(vdir, "lib", os.path.relpath(c, src).replace("/", "__")[:-2] + ".o")
        objs.append(o)
        if rebuild_lib or not os.path.exists(o):
            jobs.append([v["cc"], "-std=gnu99", "-w"] + v["cflags"] + inc + ["-c", c, "-o", o])
    shim_job = None
    for f in sorted(os.listdir(SIM)):
        p = os.path.join(SIM, f)
        if f in ("shim.c", "shim_stub.c"):
            continue        # handled below: shim.c depends on library internals and may stop compiling after a refactoring
        if f.endswith(".c"):
            o = os.path.join(vdir, "sim", f[:-2] + ".o"); objs.append(o)
            if rebuild_sim or not os.path.exists(o):
                jobs.append([v["cc"], "-std=gnu99", "-Wall"] + v["cflags"] + inc + ["-c", p, "-o", o])
        elif f.endswith(".cc"):
            o = os.path.join(vdir, "sim", f[:-3] + ".o"); objs.append(o)
            if rebuild_sim or not os.path.exists(o):
                jobs.append([v["cxx"], "-std=c++17", "-Wall", "-Wno-unused-function"] + v["cflags"] + inc + ["-c", p, "-o", o])

    shim_o = os.path.join(vdir, "sim", "shim.o")
    objs.append(shim_o)

    def run(cmd):
        r = subprocess.run(cmd, stdout=subprocess.PIPE, stderr=subprocess.STDOUT, text=True)
        return cmd, r.returncode, r.stdout
    if rebuild_sim or not os.path.exists(shim_o):
        base = [v["cc"], "-std=gnu99", "-Wall"] + v["cflags"] + inc + ["-c"]
        _, rc, out = run(base + [os.path.join(SIM, "shim.c"), "-o", shim_o])
        if rc != 0:
            sys.stderr.write("note: sim/shim.c does not compile against this tree's internal headers; using the black-box stub\n")
            _, rc, out = run(base + [os.path.join(SIM, "shim_stub.c"), "-o", shim_o])
            if rc != 0:
                sys.stderr.write("BUILD FAILED: shim_stub.c\n%s\n" % out)
                raise SystemExit(2)
    failed = False
    with ThreadPoolExecutor(max_workers=os.cpu_count() or 4) as ex:
        for cmd, rc, out in ex.map(run, jobs):
            if rc != 0:
                failed = True
                sys.stderr.write("BUILD FAILED: %s\n%s\n" % (" ".join(cmd), out))
            elif out.strip() and not quiet:
                sys.stderr.write(out)
    if failed:
        if os.path.exists(stamp):
            os.remove(stamp)
        raise SystemExit(2)
    link = [v["cxx"]] + objs + v["ldflags"] + [WRAP, "-lm", "-o", binary]
    r = subprocess.run(link, stdout=subprocess.PIPE, stderr=subprocess.STDOUT, text=True)
    if r.returncode != 0:
        sys.stderr.write("LINK FAILED:\n%s\n" % r.stdout)
        if os.path.exists(stamp):
            os.remove(stamp)
        raise SystemExit(2)
    open(stamp, "w").write(want)
    return binary


if __name__ == "__main__":
    for var in (sys.argv[1:] or ["asan", "plain"]):
        print(build(var, quiet=False))
