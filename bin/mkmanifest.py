#!/usr/bin/env python3
"""Writes /verif/MANIFEST.json (kept in one place so that the 14 check entries stay consistent)."""
import json, os
VERIF = os.path.dirname(os.path.dirname(os.path.abspath(__file__)))

TECH = "deterministic simulation with fault injection: seeded search over generated plans (schedules + fault sequences) executed against the real library"
P = {
 "C01": ("Simulated sender/channel/receiver flows (loss, bursts, reordering, duplicates, both submission APIs, callbacks, abandon/restart) for codecs 1, 2 (m=4,8), 3; after EVERY decoder call every available source symbol is compared byte-wise with the encoded block and completion implies all k available.", "4 C01"),
 "C02": ("RS flows where the channel decides which k of n arrive, in what order and through which API; after every delivery completion must hold iff >= k distinct symbols were submitted, of_finish_decoding must be OK iff >= k and FAILURE otherwise, decoded data compared with the block.", "4 C02"),
 "C03": ("LDPC flows with loss concentrated around the decoding threshold; at every of_finish_decoding the outcome is compared in both directions with exact GF(2) solvability of the received set computed by an independent model of the RFC 5170 matrix; twin receivers (same set, other order/duplicates/API) must agree.", "4 C03"),
 "C04": ("LDPC streaming receivers; after every delivered event (every prefix of every arrival sequence) the available source set must equal the source part of the peeling closure computed by an independent model; duplicates must change nothing.", "4 C04"),
 "C05": ("Every LDPC session created anywhere in a run (encoder/decoder, probe senders, after arbitrary histories of other sessions, cold process) has its parity-check matrix compared entry by entry with an independent RFC 5170 implementation (white box), its encoder output compared with the model code (black box), and mixed deployments (reference sender -> real receiver) are decoded under the C03/C04 oracles.", "4 C05"),
 "C06": ("Every of_build_repair_symbol of every real sender (all codecs, NULL or own output slot, any interleaving, cross-codec RS flows) is compared byte-wise with the reference code (Lagrange form of the Vandermonde RS generator; RFC 5170 equations), source buffers and the pointer table are checksummed around the call.", "4 C06"),
 "C07": ("The complete swarm (all codecs, modes, callbacks, abandon at arbitrary points, restart, early encoder release, late packets and a second timer after a successful finish, ENCODER_AND_DECODER instances, API and OTI faults) runs under ASan + array-bounds with exact-size heap buffers at chosen misalignments; application buffers and tables are checksummed after calls; the free() wrapper reports the library freeing application memory; crashes are replayed and minimised.", "4 C07"),
 "C08": ("Release is an explicit fault that can land at any point of a session's life; an exact per-session allocation ledger behind --wrap=malloc/calloc/realloc/free must be empty (minus what the API says the application owns) when of_release_codec_instance returns; the violation names the allocating function.", "4 C08"),
 "C09": ("Wire-carried parameters are corrupted field by field on a boundary grid (0, 1, limit-1, limit, limit+1, 2*limit, 2^16, 2^31-2, 2^31-1, 2^31, 2^32-1) and calls are corrupted (NULL session, ESI out of range incl. on never-configured sessions, wrong role) in the middle of live flows, the codec-2 field size may be preset through OF_RS_CTRL_SET_FIELD_SIZE with the same or another m; status must match the advertised domain, accepted configurations are driven through whole flows under all other oracles, rejected sessions must release cleanly, no crash or hang.", "4 C09"),
 "C10": ("After every call of every decoder history (incl. finish after completion, finish on partial blocks, late deliveries): finish status vs completion, submission statuses, completion flag vs availability and its monotonicity, and pointer identity of received source symbols.", "4 C10"),
 "C11": ("Receivers with a decoded-source-symbol callback returning a buffer, NULL or a seeded mix, loss patterns that make each decoding stage (IT recursion, ML simplification, Gaussian elimination, RS matrix decode) produce symbols; callback log and final table are checked after every call.", "4 C11"),
 "C12": ("2-8 sessions of different codecs/parameters interleaved at API-call granularity by the seeded scheduler; each session's projection of the plan is then executed alone (different global PRNG state) and the per-call observation traces must be identical; sibling flows (same block, one parameter changed) target state shared through static storage; a run whose event log depends on the runs that preceded it in the worker process is delta-debugged to a multi-plan replay (last plan alone vs after its history).", "4 C12"),
 "C15": ("LDPC flows with even and odd N1 on both sides of the extra-entries threshold; senders follow the eperftool protocol (skip ESI n-1 when the flag is true); the claim is checked against the model's column weights, the symbol actually built, encoder/decoder agreement, and the flow must still decode under O-DATA/O-ML.", "4 C15"),
 "C16": ("Codec-5 flows over every (k, n-k) with k<=16, n<=24 (accepted or not), all receiver modes and abandon points; encoder output vs the product-code model, wrong-data check after every call, completeness of of_finish_decoding vs GF(2) rank of the product code, ledger at release.", "4 C16"),
}
NA = {
 "C13": "pure function of its buffers (symbol kernels): no schedule, clock, fault, peer or history for a simulator to own; direct-call enumeration would be input generation, not simulation (DESIGN 5). The codec paths exercise the kernels for all E residues and alignments under ASan inside C01/C06/C07 runs, but no claim is made.",
 "C14": "finite constant tables and a one-shot generator: a table comparison, not a behaviour over schedules or faults (DESIGN 5).",
 "C17": "sequential data structure with no environment: its operation sequence is its input; a model-based check over generated operation sequences is stateful property testing, not simulation (DESIGN 5).",
 "C18": "same as C17; the solver clause is exercised for the systems LDPC/2D loss patterns leave over by C03/C16's completeness oracle, no claim beyond that (DESIGN 5).",
 "C19": "pure state-transition function over a single cycle; the independent RFC 5170 model carries its own generator, so a deviation at a sampled state shows under C05, nothing more (DESIGN 5).",
 "C20": "pure integer/floating arithmetic in a test tool that the simulator does not run (DESIGN 5).",
}
checks = []
for pid, (text, ref) in sorted(P.items()):
    checks.append({
        "property_id": pid,
        "quick_cmd": "bin/check --property %s --tier quick" % pid,
        "thorough_cmd": "bin/check --property %s --tier thorough" % pid,
        "evidence_file": "evidence/%s.json" % pid,
        "replay_cmd_template": "bin/check --replay {path}",
        "engine": "fecsim",
        "level_claimed": {"category": "exploration", "text": text + " Seeded sampling of schedules and fault sequences: a clean batch is evidence, not proof.", "design_ref": "DESIGN.md section " + ref},
        "level_note": "Trusted: the reference models (cross-checked against the unchanged library), the stub applications' reading of the API protocol (DESIGN H1), clang 14 ASan/bounds instrumentation. Every violation is gated by two fresh-process replays with identical event-log hash (with the worker's process history when the library keeps state in static storage) and minimised by delta debugging before it is reported. Validated against 60+ independently seeded defects (DESIGN.md section 10).",
        "technique": TECH,
    })
m = {
 "version": 1,
 "setup_cmd": "python3 bin/fsbuild.py asan",
 "hooks": {
   "guard": "OPENFEC_VERIF",
   "enable": "checks compile a snapshot of /repo/src with -DOPENFEC_VERIF (bin/fsbuild.py); no hook exists in /repo: every seam is outside the library (public API, callback pointers, -Wl,--wrap=malloc,calloc,realloc,free,rand, a C shim compiled with the library's headers)",
   "baseline_off_cmd": "cmake -G Ninja -S /repo -B /repo/_build && cmake --build /repo/_build && ctest --test-dir /repo/_build -j8 --timeout 900",
   "source_commits": [],
   "add_only": True,
 },
 "engines": [{"name": "fecsim", "path": "sim/", "serves_properties": sorted(P.keys()),
              "kind_free_text": "deterministic simulator: seeded plan generator (discrete-event world of senders, channels, receivers, timers; no library call) + plan interpreter running the real library under ASan with oracles after every call; Python driver bin/check (workers, replay gate, ddmin, known findings, evidence)"}],
 "checks": checks,
 "not_applicable": [{"property_id": k, "reason": v} for k, v in sorted(NA.items())],
 "notes": "All checks rebuild from /repo's current working tree (rsync snapshot into build/src, object cache keyed by content hash). Exit 0 held / 1 VIOLATION / 2 harness nondeterminism or build failure / 3 inconclusive. Known findings: known_findings.json.",
}
json.dump(m, open(os.path.join(VERIF, "MANIFEST.json"), "w"), indent=1)
print("ok")
