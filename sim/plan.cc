#include "plan.h"
#include <sstream>
#include <cstdlib>

std::string jstr(const std::string &s) {
    std::string o = "\"";
    for (char c : s) {
        if (c == '"' || c == '\\') { o += '\\'; o += c; }
        else if (c == '\n') o += "\\n";
        else if ((unsigned char)c < 0x20) o += ' ';
        else o += c;
    }
    return o + "\"";
}

bool parse_flat_json(const std::string &line, std::map<std::string, std::string> &out) {
    out.clear();
    size_t i = 0, n = line.size();
    auto ws = [&] { while (i < n && (line[i] == ' ' || line[i] == '\t' || line[i] == '\r')) i++; };
    ws();
    if (i >= n || line[i] != '{') return false;
    i++;
    while (true) {
        ws();
        if (i < n && line[i] == '}') return true;
        if (i >= n || line[i] != '"') return false;
        i++;
        std::string key;
        while (i < n && line[i] != '"') key += line[i++];
        if (i >= n) return false;
        i++; ws();
        if (i >= n || line[i] != ':') return false;
        i++; ws();
        std::string val;
        if (i < n && line[i] == '"') {
            i++;
            while (i < n && line[i] != '"') {
                if (line[i] == '\\' && i + 1 < n) { i++; val += (line[i] == 'n') ? '\n' : line[i]; i++; }
                else val += line[i++];
            }
            if (i >= n) return false;
            i++;
        } else if (i < n && (line[i] == '{' || line[i] == '[')) {
            // nested value: copy verbatim (only used for the generator counters, which the executor ignores)
            int depth = 0; bool instr = false;
            while (i < n) {
                char c = line[i];
                if (instr) { if (c == '\\') { val += c; i++; if (i < n) val += line[i]; } else { if (c == '"') instr = false; val += c; } }
                else { if (c == '"') instr = true; if (c == '{' || c == '[') depth++; if (c == '}' || c == ']') depth--; val += c; if (depth == 0) { i++; break; } }
                i++;
            }
        } else {
            while (i < n && line[i] != ',' && line[i] != '}' && line[i] != ' ') val += line[i++];
        }
        out[key] = val;
        ws();
        if (i < n && line[i] == ',') { i++; continue; }
        if (i < n && line[i] == '}') return true;
        return false;
    }
}

std::string Plan::to_jsonl() const {
    std::ostringstream o;
    o << "{\"v\":1,\"seed\":" << seed << ",\"run\":" << run << ",\"profile\":" << jstr(profile)
      << ",\"scramble\":" << scramble << ",\"cold\":" << (cold ? 1 : 0) << ",\"sim_us\":" << sim_us << ",\"gen\":{";
    bool first = true;
    for (auto &kv : gen) { if (!first) o << ","; first = false; o << jstr(kv.first) << ":" << kv.second; }
    o << "}}\n";
    for (auto &f : flows) {
        o << "{\"flow\":" << f.id << ",\"codec\":" << f.codec << ",\"m\":" << f.m << ",\"k\":" << f.k << ",\"r\":" << f.r << ",\"E\":" << f.E << ",\"N1\":" << f.N1
          << ",\"pseed\":" << f.pseed << ",\"payload\":" << jstr(f.payload) << ",\"plseed\":" << f.plseed;
        if (!f.oti.empty()) o << ",\"oti\":" << jstr(f.oti);
        o << "}\n";
    }
    for (auto &s : sessions) {
        o << "{\"ses\":" << s.id << ",\"flow\":" << s.flow << ",\"codec\":" << s.codec << ",\"m\":" << s.m
          << ",\"role\":" << jstr(s.role == R_ENC ? "enc" : "dec") << ",\"mode\":" << jstr(s.mode) << ",\"cb\":" << jstr(s.cb)
          << ",\"cbseed\":" << s.cbseed << ",\"align\":" << s.align << ",\"tag\":" << jstr(s.tag) << ",\"tx\":" << jstr(s.tx) << ",\"both\":" << s.both << "}\n";
    }
    for (auto &p : ops) {
        o << "{\"t\":" << p.t << ",\"s\":" << p.ses << ",\"op\":" << jstr(p.op);
        if (p.esi >= 0) o << ",\"esi\":" << p.esi;
        if (!p.arg.empty()) o << ",\"arg\":" << jstr(p.arg);
        if (p.rs) o << ",\"rs\":" << p.rs;
        o << "}\n";
    }
    return o.str();
}

static uint64_t u64(const std::map<std::string, std::string> &m, const char *k, uint64_t d = 0) {
    auto it = m.find(k); if (it == m.end()) return d; return strtoull(it->second.c_str(), nullptr, 10);
}
static int64_t i64(const std::map<std::string, std::string> &m, const char *k, int64_t d = 0) {
    auto it = m.find(k); if (it == m.end()) return d; return strtoll(it->second.c_str(), nullptr, 10);
}
static std::string sv(const std::map<std::string, std::string> &m, const char *k, const char *d = "") {
    auto it = m.find(k); if (it == m.end()) return d; return it->second;
}

bool Plan::from_jsonl(const std::string &text, Plan &out, std::string &err) {
    out = Plan();
    std::istringstream in(text);
    std::string line;
    int ln = 0;
    bool have_header = false;
    while (std::getline(in, line)) {
        ln++;
        if (line.empty() || line[0] == '#') continue;
        std::map<std::string, std::string> m;
        if (!parse_flat_json(line, m)) { err = "line " + std::to_string(ln) + ": bad json"; return false; }
        if (m.count("v")) {
            have_header = true;
            out.seed = u64(m, "seed"); out.run = u64(m, "run"); out.profile = sv(m, "profile");
            out.scramble = u64(m, "scramble", 1); out.cold = u64(m, "cold") != 0; out.sim_us = i64(m, "sim_us");
        } else if (m.count("op")) {
            Op p; p.t = i64(m, "t"); p.ses = (int)i64(m, "s"); p.op = sv(m, "op"); p.esi = i64(m, "esi", -1);
            p.arg = sv(m, "arg"); p.rs = u64(m, "rs");
            out.ops.push_back(p);
        } else if (m.count("ses")) {
            Session s; s.id = (int)i64(m, "ses"); s.flow = (int)i64(m, "flow"); s.codec = (int)i64(m, "codec"); s.m = (int)i64(m, "m");
            s.role = sv(m, "role") == "enc" ? R_ENC : R_DEC; s.mode = sv(m, "mode", "stream"); s.cb = sv(m, "cb", "none");
            s.cbseed = u64(m, "cbseed"); s.align = (int)i64(m, "align"); s.tag = sv(m, "tag", "flow"); s.tx = sv(m, "tx", "real"); s.both = (int)i64(m, "both");
            out.sessions.push_back(s);
        } else if (m.count("flow")) {
            Flow f; f.id = (int)i64(m, "flow"); f.codec = (int)i64(m, "codec"); f.m = (int)i64(m, "m"); f.k = (uint32_t)u64(m, "k"); f.r = (uint32_t)u64(m, "r"); f.E = (uint32_t)u64(m, "E");
            f.N1 = (uint32_t)u64(m, "N1"); f.pseed = (uint32_t)u64(m, "pseed"); f.payload = sv(m, "payload", "rand");
            f.plseed = u64(m, "plseed"); f.oti = sv(m, "oti");
            out.flows.push_back(f);
        } else { err = "line " + std::to_string(ln) + ": unknown record"; return false; }
    }
    if (!have_header) { err = "no header line"; return false; }
    return true;
}
