/* Linked instead of shim.c when shim.c no longer compiles against the library's internal headers. */
#include "adapter.h"
int shim_available(void) { return 0; }
void shim_scramble_prng(uint64_t scramble) { (void)scramble; }
int shim_pchk_walk(void *ses, shim_entry_fn fn, void *ctx) { (void)ses; (void)fn; (void)ctx; return -1; }
int shim_extra_entries(void *ses) { (void)ses; return -1; }
