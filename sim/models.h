// Reference models (oracles). Written from the specifications; nothing here calls into openfec.
#pragma once
#include <cstdint>
#include <vector>
#include <map>
#include <memory>

// ---------------------------------------------------------------- M-GF
// GF(2^m) = GF(2)[x]/(p), m=4: x^4+x+1, m=8: x^8+x^4+x^3+x^2+1, generator x.
struct GF {
    int m; int size; uint32_t poly;
    std::vector<uint8_t> exp_, log_;     // own tables, generated here by shift-and-xor
    explicit GF(int m);
    uint8_t mul(uint8_t a, uint8_t b) const { return (a && b) ? exp_[(log_[a] + log_[b]) % (size - 1)] : 0; }
    uint8_t inv(uint8_t a) const { return exp_[(size - 1 - log_[a]) % (size - 1)]; }
    uint8_t alpha_pow(int e) const { return exp_[((e % (size - 1)) + (size - 1)) % (size - 1)]; }
    static uint8_t slow_mul(uint8_t a, uint8_t b, int m, uint32_t poly);   // definition, used to build tables
};
const GF &gf_for(int m);

// ---------------------------------------------------------------- M-RS
// Canonical systematic RS generator on points 0,1,a,a^2,... : row for encoding symbol `esi`
// (k coefficients) such that symbol_esi = sum_j G[esi][j]*src_j. Computed by Lagrange interpolation
// (value at x_esi of the unique polynomial of degree <k taking src_j at x_j), which equals
// V * inverse(V_top) for the Vandermonde matrix V on those points.
struct RSModel {
    int m, k, n;
    std::vector<std::vector<uint8_t>> rows;   // rows[esi-k] for esi in k..n-1
    RSModel(int m, int k, int n);
    // encode one repair symbol (E bytes). m=4: two independent nibbles per byte.
    void encode(const std::vector<const uint8_t *> &src, int esi, uint8_t *out, size_t E) const;
};
const RSModel &rs_model(int m, int k, int n);     // cached

// ---------------------------------------------------------------- M-H5170 / M-2D : binary parity-check codes
struct BinCode {
    uint32_t k = 0, r = 0;                        // n = k + r
    std::vector<std::vector<uint32_t>> rows;      // rows[j] = sorted ESIs in equation j (j = 0..r-1)
    std::vector<std::vector<uint32_t>> cols;      // cols[esi] = equations containing esi
    bool extra_entries = false;                   // RFC 5170 "rows with < 2 ones" fix-up fired
    bool all_source_cols_even = false;            // every source column has even weight
    uint32_t no_choice_left = 0;                  // how often the "no choice left" branch fired
    void finish();                                // builds cols, all_source_cols_even
    uint32_t n() const { return k + r; }
    // encode all repair symbols for the given sources; returns false if the system has no unique solution
    // obtainable by the sequential rule (staircase: repair j from equation j; 2D: idem).
    void encode_all(const std::vector<const uint8_t *> &src, std::vector<std::vector<uint8_t>> &repairs, size_t E) const;
};

// RFC 5170 Park-Miller "minimal standard" generator as the RFC writes it.
struct PMMS {
    uint64_t s;
    explicit PMMS(uint64_t seed) : s(seed) {}
    uint64_t rand(uint64_t maxv) {
        s = (16807ULL * s) % 2147483647ULL;
        return (uint64_t)((double)s * (double)maxv / (double)2147483647.0);
    }
};

// LDPC-Staircase parity-check matrix of RFC 5170 for (k, n, N1, seed). Requires 1<=k, N1<=n-k, seed in 1..2^31-2.
std::shared_ptr<const BinCode> h5170(uint32_t k, uint32_t r, uint32_t N1, uint32_t seed);

// d x l product single-parity code with the layout convention described in DESIGN (library-independent part:
// factorisation). Returns nullptr when (k, r) has no factorisation d*l=k, d+l=r.
std::shared_ptr<const BinCode> twod_model(uint32_t k, uint32_t r);
bool twod_factor(uint32_t k, uint32_t r, uint32_t &a, uint32_t &b);

// ---------------------------------------------------------------- M-PEEL (incremental)
struct Peel {
    const BinCode *c = nullptr;
    std::vector<uint8_t> known;          // per ESI
    std::vector<uint32_t> unk;           // per row: number of unknown symbols
    uint32_t known_src = 0;
    void init(const BinCode *code);
    void add(uint32_t esi);              // mark received; propagates degree-1 equations
    bool all_sources() const { return known_src == c->k; }
};

// ---------------------------------------------------------------- M-RANK
// Given the set of known symbols (any superset-closed or not), is every source symbol uniquely determined?
// = the sub-matrix on the unknown columns has full column rank (see DESIGN section 3).
struct RankResult { bool recoverable; uint32_t unknowns; uint32_t rows_used; bool needed_elimination; };
RankResult rank_recoverable(const BinCode &c, const std::vector<uint8_t> &known);
