// Plan generator: a small discrete-event world (senders, channels, receivers, timers) simulated WITHOUT the
// library. Every random decision of a run is drawn here from one PRNG seeded by (VERIF_SEED, run, profile);
// the output is an explicit plan. The library has no clock: simulated time only orders the stub applications.
#include "gen.h"
#include "common.h"
#include "models.h"
#include "prng.h"
#include <algorithm>
#include <cmath>

bool cold_candidate(uint64_t seed, uint64_t run);

namespace {

struct Ev { int64_t t; uint64_t seq; Op op; };

struct Swarm {              // what is enabled in this run, and how hard
    bool near_threshold, burst, dup_on, reorder_on, abandon, restart, api_faults, oti_corrupt, late_after_finish;
    double loss, dup_rate, jitter_mult, null_slot_rate;
    int nflows;
};

struct Gen {
    Rng rng; const GenOptions &o; Plan plan; std::vector<Ev> evs; uint64_t seq = 0; int next_ses = 0, next_flow = 0;
    std::string prof; bool thorough;
    Gen(uint64_t seed, const GenOptions &opt) : rng(seed), o(opt), prof(opt.profile), thorough(opt.thorough) {}

    void emit(int64_t t, int ses, const char *op, int64_t esi = -1, const std::string &arg = "", uint64_t rs = 0) {
        Op p; p.t = t; p.ses = ses; p.op = op; p.esi = esi; p.arg = arg; p.rs = rs;
        evs.push_back(Ev{t, seq++, p});
    }
    void cnt(const char *k, int64_t d = 1) { plan.gen[k] += d; }

    // ---------------------------------------------------------------- parameter choice
    uint32_t pick_k(uint32_t maxk) {
        double u = rng.unit(); uint32_t k;
        if ((prof == "C03" || prof == "C11") && rng.chance(0.45)) return std::min<uint32_t>((uint32_t)rng.range(12, 90), maxk);   // systems big enough for wide eliminations
        if (u < 0.55) k = (uint32_t)rng.range(1, 12);
        else if (u < 0.85) k = (uint32_t)rng.range(13, 40);
        else if (u < 0.96) k = (uint32_t)rng.range(41, thorough ? 600 : 300);
        else k = (uint32_t)rng.range(301, thorough ? 4000 : 1500);
        if (thorough && maxk > 20000 && rng.chance(0.012)) k = (uint32_t)rng.range(4000, 20000);     // long staircase chains, deep recursion
        return std::min(k, maxk);
    }
    uint32_t pick_E(uint32_t k, uint32_t n) {
        double u = rng.unit(); uint32_t E;
        if (u < 0.70) E = (uint32_t)rng.range(1, 64);
        else if (u < 0.92) E = (uint32_t)rng.range(65, 300);
        else E = (uint32_t)rng.range(1024, 4096);
        while ((uint64_t)n * E > (thorough ? 4000000u : 400000u) && E > 4) E /= 2;
        if (rng.chance(0.006) && n <= 8) { static const uint32_t huge[] = {65536, 524288, 524312, 1048576}; E = huge[rng.below(4)]; return E; }   // symbols of 64 KiB .. 1 MiB
        if (rng.chance(0.03) && n <= 120) { static const uint32_t special[] = {4095, 4096, 4097, 8192, 2048, 12288}; uint32_t s = special[rng.below(6)]; if ((uint64_t)n * s <= 700000u) E = s; }   // page-sized symbols
        (void)k;
        return E;
    }
    std::string pick_payload() {
        double u = rng.unit();
        return u < 0.55 ? "rand" : u < 0.85 ? "ident" : u < 0.93 ? "zero" : "ff";
    }

    void pick_codec(int &codec, int &m) {
        std::vector<std::pair<int, int>> c;
        if (prof == "C02") c = {{1, 0}, {2, 4}, {2, 8}};
        else if (prof == "C03" || prof == "C04" || prof == "C05" || prof == "C15") c = {{3, 0}};
        else if (prof == "C16") c = {{5, 0}};
        else if (prof == "C06") c = {{1, 0}, {2, 4}, {2, 8}, {3, 0}, {3, 0}};
        else if (prof == "C12") c = {{1, 0}, {2, 4}, {2, 8}, {3, 0}, {3, 0}, {3, 0}};
        else c = {{1, 0}, {2, 4}, {2, 8}, {3, 0}, {3, 0}};
        auto p = c[rng.below(c.size())];
        codec = p.first; m = p.second;
    }

    Flow make_flow(int codec, int m) {
        Flow f; f.id = next_flow++; f.codec = codec; f.m = m;
        bool pow2_dims = false;
        if (codec == C_RS8 || codec == C_RS2M) {
            uint32_t lim = codec == C_RS8 ? 255 : (1u << m) - 1;
            f.k = pick_k(lim - 1);
            if (prof == "C02" && rng.chance(0.3)) f.k = (uint32_t)rng.range(1, std::min<uint32_t>(lim - 1, 14));
            if (rng.chance(0.03)) {
                // dimensions whose products are powers of two (n*k = 256, k*E = 8192, ...): where a work buffer switches
                // between stack and heap, or between two size classes
                uint32_t a = (uint32_t)rng.range(0, 5), maxb = lim >= 255 ? 7 : 3;
                if (a + 1 <= maxb) { uint32_t b = (uint32_t)rng.range(a + 1, maxb); f.k = 1u << a; f.r = (1u << b) - f.k; pow2_dims = true; }
            }
            uint32_t maxr = lim - f.k;
            double u = rng.unit();
            if (!pow2_dims) f.r = u < 0.5 ? (uint32_t)rng.range(1, std::min<uint32_t>(maxr, 6)) : u < 0.9 ? (uint32_t)rng.range(1, std::min<uint32_t>(maxr, f.k + 4)) : (uint32_t)rng.range(1, maxr);
        } else if (codec == C_LDPC) {
            f.N1 = (uint32_t)rng.range(3, 10);
            if (prof == "C15" && rng.chance(0.6)) f.N1 = (uint32_t)(2 * rng.range(2, 5));
            f.k = pick_k(40000);
            static const double rates[] = {0.2, 0.25, 1.0 / 3, 0.4, 0.5, 0.6, 2.0 / 3, 0.75, 0.8, 0.9};
            double rate = rates[rng.below(10)];
            uint32_t r = (uint32_t)std::llround(f.k * (1 - rate) / rate);
            f.r = std::max(r, f.N1);
            if (rng.chance(0.15)) f.r = f.N1 + (uint32_t)rng.below(3);
            double u = rng.unit();
            if (u < 0.06) { static const uint32_t edge[] = {1, 2, 16807, 2147483646u, 2147483645u, 1043618065u}; f.pseed = edge[rng.below(6)]; }
            else f.pseed = (uint32_t)rng.range(1, 2147483646LL);
            // high column degrees: N1 up to 40 (the advertised domain is 3 <= N1 <= n-k), and tiny k with many repair symbols
            // (most rows get no source entry, so the extra entries pile up in a few columns): one arriving symbol can then make
            // dozens of equations solvable in a single step. Drawn from a side stream, so that every other flow of the plan
            // is exactly what it was before this bias existed.
            {
                Rng side(mix64(f.pseed, ((uint64_t)f.k << 32) | f.r));
                double v = side.unit();
                if (v < 0.05 && f.k <= 3000) { f.N1 = (uint32_t)side.range(11, 40); f.r = std::max(f.r, f.N1); cnt("ldpc_high_N1_flows"); }
                else if (v < 0.09 && f.k <= 12) { f.r = std::max<uint32_t>(f.r, (uint32_t)side.range(30, 150)); cnt("ldpc_tiny_k_many_repair_flows"); }
            }
        } else if (codec == C_2D) {
            // every (k, r) with k <= 16 and n <= 24 is tried; most are not product shapes
            std::vector<std::pair<uint32_t, uint32_t>> ok, all;
            for (uint32_t k = 1; k <= 16; k++) for (uint32_t r = 1; k + r <= 24; r++) { uint32_t a, b; all.push_back({k, r}); if (twod_factor(k, r, a, b)) ok.push_back({k, r}); }
            auto p = rng.chance(0.85) ? ok[rng.below(ok.size())] : all[rng.below(all.size())];
            f.k = p.first; f.r = p.second;
        }
        f.E = pick_E(f.k, f.k + f.r);
        if (pow2_dims && rng.chance(0.6)) { static const uint32_t prod[] = {4096, 8192, 16384, 1024}; uint32_t p = prod[rng.below(4)]; if (p / f.k >= 1 && (uint64_t)(f.k + f.r) * (p / f.k) <= 700000u) f.E = p / f.k; }
        f.payload = pick_payload(); f.plseed = rng.next() & 0xffffffffu;
        if (f.payload == "ident" && (uint64_t)f.E * 8 < f.k && f.k <= 4096) f.E = (f.k + 7) / 8;
        return f;
    }

    // A sibling block: the previous block with exactly one parameter changed. Two sessions that agree on part of their
    // configuration and differ in the rest, alive in the same process, are what exposes state shared across sessions
    // (a cache that forgets part of its key, a static scratch buffer sized for the other session).
    bool make_sibling(const Flow &a, Flow &f) {
        f = a; f.id = next_flow++; f.plseed = rng.next() & 0xffffffffu; f.oti.clear();
        bool rs = a.codec == C_RS8 || a.codec == C_RS2M;
        int what = (int)rng.below(5);
        if (rs) {
            uint32_t lim = a.codec == C_RS8 ? 255 : (1u << a.m) - 1;
            switch (what) {
            case 0: if (a.k + a.r + 1 <= lim) f.r = a.r + 1 + (uint32_t)rng.below(std::min<uint32_t>(8, lim - a.k - a.r)); else if (a.r > 1) f.r = a.r - 1; else return false; break;
            case 1: if (a.r > 1) f.r = 1 + (uint32_t)rng.below(a.r - 1); else return false; break;
            case 2: f.E = a.E > 8 ? a.E / 2 : a.E * (2 + (uint32_t)rng.below(40)); break;
            case 3: if (a.codec == C_RS2M && a.m == 4) { f.m = 8; } else if (a.codec == C_RS2M && a.m == 8 && a.k + a.r <= 15) { f.m = 4; } else if (a.codec == C_RS8 && a.k + a.r <= 15) { f.codec = C_RS2M; f.m = 4; } else return false; break;
            default: if (a.k > 1) f.k = a.k - 1; else f.k = a.k + 1; if (f.k + f.r > lim) return false; break;
            }
        } else if (a.codec == C_LDPC) {
            switch (what) {
            case 0: f.r = a.r + 1 + (uint32_t)rng.below(std::max<uint32_t>(1, a.r)); break;
            case 1: if (a.r > a.N1) f.r = a.N1 + (uint32_t)rng.below(a.r - a.N1); else return false; break;
            case 2: f.pseed = (uint32_t)rng.range(1, 2147483646LL); break;
            case 3: f.E = a.E > 8 ? a.E / 2 : a.E * (2 + (uint32_t)rng.below(40)); break;
            default: { uint32_t n1 = 3 + (uint32_t)rng.below(8); if (n1 == a.N1 || n1 > a.r) return false; f.N1 = n1; if ((a.N1 * a.k) % n1 == 0 && rng.chance(0.7)) f.k = a.N1 * a.k / n1; break; }   // same N1*k
            }
            if (f.k == 0 || f.k + f.r > 50000) return false;
        } else return false;
        if ((uint64_t)(f.k + f.r) * f.E > 600000u) return false;
        if (f.payload == "ident" && (uint64_t)f.E * 8 < f.k) f.payload = "rand";
        cnt("sibling_flows");
        return true;
    }

    // one OTI field replaced by a boundary value (fault on wire-carried parameters, E3)
    void corrupt_oti(Flow &f) {
        uint64_t limk = f.codec == C_RS8 ? 255 : f.codec == C_RS2M ? ((f.m == 4 || f.m == 8) ? (1u << f.m) - 1 : 255) : 50000;
        std::vector<std::string> fields{"k", "r", "E"};
        if (f.codec == C_RS2M) fields.push_back("m");
        if (f.codec == C_LDPC) { fields.push_back("N1"); fields.push_back("seed"); fields.push_back("seed"); }
        std::string fld = fields[rng.below(fields.size())];
        auto grid = [&](uint64_t lim) {
            static const uint64_t fixed[] = {0, 1, 65536, 2147483646ULL, 2147483647ULL, 2147483648ULL, 4294967295ULL};
            std::vector<uint64_t> g(fixed, fixed + 7);
            g.push_back(lim - 1); g.push_back(lim); g.push_back(lim + 1); g.push_back(2 * lim);
            return g[rng.below(g.size())];
        };
        f.oti = fld;
        if (fld == "k") {
            f.k = (uint32_t)grid(limk);
            if (f.codec == C_LDPC && f.k >= 40000 && f.k <= 140000) { f.r = std::max<uint32_t>(f.N1, 3) + (uint32_t)rng.below(4); if (rng.chance(0.5) && f.k + f.r <= 50000) f.r = 50000 - f.k; }
            if (f.codec != C_LDPC && f.k >= 1 && f.k < limk && rng.chance(0.7)) f.r = (uint32_t)rng.range(1, limk - f.k);
        } else if (fld == "r") {
            uint64_t v = grid(limk);
            if (rng.chance(0.5)) v = (limk > f.k) ? limk - f.k + (uint64_t)rng.range(-1, 1) : v;    // n = limit-1, limit, limit+1
            f.r = (uint32_t)v;
        } else if (fld == "E") {
            static const uint64_t es[] = {0, 0, 1, 65536, 1048576};
            f.E = (uint32_t)es[rng.below(5)];
            if ((uint64_t)(f.k + f.r) * f.E > (8u << 20) && f.E > 1) f.E = 1;      // keep the block materialisable
            if ((f.codec == C_RS8 || f.codec == C_RS2M) && rng.chance(0.3)) { static const uint64_t big[] = {2147483648ULL, 4294967295ULL}; f.E = (uint32_t)big[rng.below(2)]; }
        } else if (fld == "m") {
            static const int ms[] = {0, 1, 3, 5, 7, 9, 16, 255, 65535};
            f.m = ms[rng.below(9)];
        } else if (fld == "N1") {
            std::vector<uint32_t> g{0, 1, 2, f.r, f.r + 1, 255};
            f.N1 = g[rng.below(g.size())];
            if (f.N1 > 255) f.N1 = 255;
        } else if (fld == "seed") {
            static const uint64_t ss[] = {0, 0, 2147483647ULL, 2147483648ULL, 4294967295ULL, 3000000000ULL, 1, 2147483646ULL, 2147483646ULL};   // incl. both ends of the valid range
            f.pseed = (uint32_t)ss[rng.below(9)];
        }
        if ((uint64_t)f.k + f.r > 4000 && f.E > 8 && fld != "E") f.E = 1 + (uint32_t)rng.below(8);
        cnt("oti_corruptions");
    }

    // ---------------------------------------------------------------- transmission schedules (eperftool families)
    std::vector<uint32_t> tx_schedule(const Flow &f, bool skip_last) {
        uint32_t k = f.k, n = f.k + f.r;
        std::vector<uint32_t> src(k), rep(f.r), all;
        for (uint32_t i = 0; i < k; i++) src[i] = i;
        for (uint32_t i = 0; i < f.r; i++) rep[i] = k + i;
        int mode = (int)rng.below(9);
        if (is_big(f)) mode = (int)rng.below(5);      // no carousel / few-source schedules for large blocks (cost), every plain order is fine
        auto shuf = [&](std::vector<uint32_t> &v) { if (!v.empty()) rng.shuffle(v.data(), v.size()); };
        switch (mode) {
        case 0: all = src; all.insert(all.end(), rep.begin(), rep.end()); break;
        case 1: all = src; all.insert(all.end(), rep.begin(), rep.end()); std::reverse(all.begin(), all.end()); break;
        case 2: all = src; all.insert(all.end(), rep.begin(), rep.end()); shuf(all); break;
        case 3: shuf(rep); all = src; all.insert(all.end(), rep.begin(), rep.end()); break;
        case 4: shuf(src); all = rep; all.insert(all.end(), src.begin(), src.end()); break;
        case 5: all = rep; if (rng.chance(0.5)) shuf(all); for (uint32_t i = 0; i < k && rng.chance(0.3); i++) all.push_back(src[rng.below(k)]); break;   // (almost) non systematic
        case 6: { shuf(src); size_t few = std::max<size_t>(1, k / 4); all.assign(src.begin(), src.begin() + std::min<size_t>(few, k)); all.insert(all.end(), rep.begin(), rep.end()); shuf(all); break; }
        case 7: { int rounds = (int)rng.range(2, 3); for (int r = 0; r < rounds; r++) { std::vector<uint32_t> v = src; v.insert(v.end(), rep.begin(), rep.end()); shuf(v); all.insert(all.end(), v.begin(), v.end()); } cnt("carousel_flows"); break; }
        default: { // interleave source and repair
            size_t a = 0, b = 0; while (a < src.size() || b < rep.size()) { if (a < src.size()) all.push_back(src[a++]); if (b < rep.size() && rng.chance(0.6)) all.push_back(rep[b++]); else if (a >= src.size() && b < rep.size()) all.push_back(rep[b++]); } break; }
        }
        if (skip_last) { all.erase(std::remove(all.begin(), all.end(), n - 1), all.end()); cnt("sender_skipped_null_symbol"); }
        if (all.size() > 30000 && !is_big(f)) all.resize(30000);
        return all;
    }

    // large blocks are driven with light loss only: dense elimination is cubic in the number of unknowns (DESIGN C09 bounds)
    static bool is_big(const Flow &f) { return (uint64_t)f.k + f.r > 3000; }
    // Worth generating the rest of the flow? Yes if the configuration is inside the default domain, and also if its only
    // "defect" is an LDPC k or n above the default limits: a library that advertises larger limits must then work there
    // (the executor judges every session against the limits that session reports).
    static bool drivable(const Flow &f, int codec, int m) {
        return in_domain(codec, m, f.k, f.r, f.E, f.N1, f.pseed, codec == C_LDPC ? 140000 : 0, codec == C_LDPC ? 140000 : 0).inside;
    }

    struct Arrival { int64_t t; uint32_t esi; bool dup; };

    std::vector<Arrival> channel(const Flow &f, const std::vector<uint32_t> &tx, int64_t t0, int64_t pace, const Swarm &sw) {
        std::vector<Arrival> out;
        double loss = sw.loss;
        if (sw.near_threshold) {
            double thr = (double)f.r / (f.k + f.r);
            if (f.codec == C_LDPC) thr *= 0.9;
            loss = thr + (rng.unit() - 0.5) * 0.3;
        }
        loss = std::max(0.0, std::min(0.95, loss));
        if (is_big(f)) {
            std::vector<Arrival> outb;
            size_t drops = rng.below(4);
            std::vector<uint8_t> dropit(tx.size(), 0);
            for (size_t d = 0; d < drops && !tx.empty(); d++) dropit[rng.below(tx.size())] = 1;
            for (size_t i = 0; i < tx.size(); i++) { if (dropit[i]) { cnt("dropped"); continue; } outb.push_back({t0 + (int64_t)i * pace + 1000, tx[i], false}); }
            cnt("delivered", (int64_t)outb.size()); cnt("big_block_flows");
            return outb;
        }
        bool bad = false; double p_gb = 0.05, p_bg = 0.25;     // Gilbert burst model ("partition and heal")
        int64_t base = 1000, jitter = (int64_t)(sw.reorder_on ? sw.jitter_mult * pace : 0);
        for (size_t i = 0; i < tx.size(); i++) {
            int64_t t = t0 + (int64_t)i * pace;
            bool drop;
            if (sw.burst) {
                if (bad) { if (rng.chance(p_bg)) bad = false; } else if (rng.chance(p_gb)) { bad = true; cnt("burst_windows"); }
                drop = bad ? rng.chance(0.9) : rng.chance(loss * 0.5);
            } else drop = rng.chance(loss);
            if (drop) { cnt("dropped"); continue; }
            int64_t d = base + (jitter > 0 ? (int64_t)rng.below((uint64_t)jitter + 1) : 0);
            out.push_back({t + d, tx[i], false});
            if (sw.dup_on && rng.chance(sw.dup_rate)) {
                int64_t d2 = d + (int64_t)rng.below((uint64_t)(2 * pace + jitter + 1));
                out.push_back({t + d2, tx[i], true}); cnt("duplicated");
            }
        }
        std::stable_sort(out.begin(), out.end(), [](const Arrival &a, const Arrival &b) { return a.t < b.t; });
        // reordering actually seen by the receiver: arrival order differs from transmission order
        std::vector<int64_t> first_pos(f.k + f.r, -1);
        for (size_t i = 0; i < tx.size(); i++) if (first_pos[tx[i]] < 0) first_pos[tx[i]] = (int64_t)i;
        int64_t last = -1;
        for (auto &a : out) { if (a.dup) continue; if (first_pos[a.esi] < last) cnt("reordered_on_arrival"); last = std::max(last, first_pos[a.esi]); }
        cnt("delivered", (int64_t)out.size());
        return out;
    }

    // ---------------------------------------------------------------- nodes
    int add_session(int flow, int codec, int m, int role, const std::string &mode, const std::string &cb, const std::string &tag, const std::string &tx) {
        Session s; s.id = next_ses++; s.flow = flow; s.codec = codec; s.m = m; s.role = role; s.mode = mode; s.cb = cb; s.tag = tag; s.tx = tx;
        s.cbseed = rng.next() & 0xffff; s.align = rng.chance(0.35) ? 0 : (int)rng.below(16);
        s.both = o.allow_both && rng.chance(0.08) ? 1 : 0;
        plan.sessions.push_back(s);
        return s.id;
    }

    void api_faults(int ses, int role, int64_t t0, int64_t t1, uint32_t k) {
        static const char *any[] = {"null_ses:decode", "null_ses:build", "null_ses:setavail", "null_ses:finish", "null_ses:complete", "null_ses:gettab", "null_ses:setp", "null_ses:setcb", "null_ses:ctrl"};
        static const char *dec[] = {"esi_n", "esi_n1", "esi_max", "role:build"};
        static const char *enc[] = {"build_src", "build_n", "build_max", "role:decode", "role:setavail", "role:finish", "role:complete", "role:gettab"};
        int nf = (int)rng.range(1, 4);
        for (int i = 0; i < nf; i++) {
            const char *kind;
            if (rng.chance(0.35)) kind = any[rng.below(9)];
            else kind = role == R_DEC ? dec[rng.below(4)] : enc[rng.below(8)];
            int64_t t = t0 + (int64_t)rng.below((uint64_t)std::max<int64_t>(1, t1 - t0));
            emit(t, ses, "FAULT", std::string(kind) == "build_src" ? (int64_t)rng.below(k) : -1, kind);
            cnt("api_faults_planned");
        }
    }

    // sender node: returns the time at which transmission starts
    int64_t sender(const Flow &f, int codec, int m, int64_t t0, const Swarm &sw, bool probe, int64_t &t_release_hint) {
        int sid = add_session(f.id, codec, m, R_ENC, "stream", "none", probe ? "probe" : "flow", "real");
        int64_t t = t0;
        emit(t, sid, "CREATE"); t += 7;
        if (codec == C_RS2M && rng.chance(prof == "C09" ? 0.4 : 0.15)) { emit(t - 3, sid, "CTRLSET", rng.chance(0.6) ? m : (m == 4 ? 8 : 4)); cnt("field_size_presets"); }
        static const char *unconf[] = {"unconf:esi0", "unconf:esi1", "unconf:esi_max"};
        if (sw.api_faults && rng.chance(0.2)) { emit(t - 2, sid, "FAULT", -1, unconf[rng.below(3)]); cnt("api_faults_planned"); }
        emit(t, sid, "SETP"); t += 7;
        if (!f.oti.empty() && !drivable(f, codec, m)) {
            emit(t + 50, sid, "RELEASE"); t_release_hint = t + 50; return t;
        }
        if (!materialisable(f)) { emit(t + 50, sid, "RELEASE"); t_release_hint = t + 50; return t; }
        if (rng.chance(0.3)) { emit(t, sid, "CTRL"); t += 3; }
        std::vector<uint32_t> order(f.r);
        for (uint32_t i = 0; i < f.r; i++) order[i] = f.k + i;
        bool rs = codec == C_RS8 || codec == C_RS2M;
        if ((rs || codec == C_2D) && rng.chance(0.5)) rng.shuffle(order.data(), order.size());
        uint32_t nbuild = f.r;
        if (probe && f.r > 64) nbuild = 64;
        if (is_big(f) && nbuild > 1500) nbuild = 1500;
        int64_t tb0 = t;
        for (uint32_t i = 0; i < nbuild; i++) {
            bool null_slot = rng.chance(sw.null_slot_rate);
            emit(t, sid, "BUILD", order[i], null_slot ? "null" : "own"); t += 5;
        }
        if (sw.api_faults) api_faults(sid, R_ENC, tb0, t + 20, f.k);
        t_release_hint = t + 10;      // may be moved later by the caller
        return t + 20;
    }

    void receiver(const Flow &f, int codec, int m, const std::vector<Arrival> &arr, int64_t t_oti, const Swarm &sw, const std::string &tx, const std::string &force_mode, const std::string &tag) {
        std::string mode = force_mode;
        if (mode.empty()) {
            double u = rng.unit();
            if (prof == "C04") mode = "stream";
            else if (prof == "C03") mode = u < 0.55 ? "finish" : "batch";
            else mode = u < 0.34 ? "stream" : u < 0.72 ? "finish" : "batch";
        }
        const bool big = is_big(f);
        if (big && mode == "batch") mode = "finish";
        std::string cb = "none";
        if (prof == "C11") { double u = rng.unit(); cb = u < 0.4 ? "buf" : u < 0.7 ? "mix" : "null"; }
        else if (rng.chance(0.25)) { double u = rng.unit(); cb = u < 0.5 ? "buf" : u < 0.8 ? "mix" : "null"; }
        if (!o.allow_null_cb && cb != "none") cb = "buf";
        int sid = add_session(f.id, codec, m, R_DEC, mode, cb, tag, tx);
        std::vector<Ev> mine;
        auto put = [&](int64_t t, const char *op, int64_t esi = -1, const std::string &arg = "", uint64_t rs = 0) {
            Op p; p.t = t; p.ses = sid; p.op = op; p.esi = esi; p.arg = arg; p.rs = rs; mine.push_back(Ev{t, 0, p});
        };
        int64_t t = t_oti;
        put(t, "CREATE");
        if (codec == C_RS2M && rng.chance(prof == "C09" ? 0.4 : 0.15)) { put(t + 2, "CTRLSET", rng.chance(0.6) ? m : (m == 4 ? 8 : 4)); cnt("field_size_presets"); }
        static const char *unconf[] = {"unconf:esi0", "unconf:esi1", "unconf:esi_max"};
        if (sw.api_faults && rng.chance(0.2)) { put(t + 3, "FAULT", -1, unconf[rng.below(3)]); cnt("api_faults_planned"); }
        put(t + 5, "SETP");
        bool usable = drivable(f, codec, m) && materialisable(f);
        if (codec == C_2D) usable = materialisable(f);
        if (!usable) { put(t + 40, "RELEASE"); for (auto &e : mine) { e.seq = seq++; evs.push_back(e); } return; }
        if (cb != "none") put(rng.chance(0.2) ? t + 3 : t + 8, "SETCB");      // usually after the parameters, sometimes before
        int64_t last = t + 10;
        for (auto &a : arr) {
            int64_t ta = std::max(a.t, t + 10);
            put(ta, mode == "batch" ? "STORE" : "DELIVER", a.esi, a.dup ? "dup" : "");
            last = std::max(last, ta);
        }
        // the application's timer: quiescence (200 simulated ms after the last packet) or a block deadline that may
        // fire while packets are still arriving
        int64_t t_fin = last + 200000;
        if (!arr.empty() && !big && rng.chance(0.25)) { t_fin = arr.front().t + (int64_t)rng.below((uint64_t)(last - arr.front().t + 1)); cnt("deadline_fired_mid_stream"); }
        if (mode == "batch") { put(t_fin, "SETAVAIL"); put(t_fin + 3, "FINISH", -1, "", (rng.next() & 0xffffff) + 1); }
        else if (mode == "finish") put(t_fin, "FINISH", -1, "", (rng.next() & 0xffffff) + 1);
        // a deadline that fired mid-stream is followed by the ordinary quiescence timer: a second of_finish_decoding. (For
        // LDPC/2D the executor lets it through only when the first attempt decoded the block - DESIGN H1.)
        if (mode == "finish" && t_fin < last && rng.chance(prof == "C10" ? 0.8 : 0.4)) { put(last + 200000, "FINISH", -1, "", (rng.next() & 0xffffff) + 1); cnt("second_finish_timer"); }
        int64_t t_end = std::max(last, t_fin) + 200600;
        std::stable_sort(mine.begin(), mine.end(), [](const Ev &a, const Ev &b) { return a.t < b.t; });
        if (sw.api_faults) {
            int nf = (int)rng.range(1, 3);
            static const char *kinds[] = {"esi_n", "esi_n1", "esi_max", "role:build", "null_ses:decode", "null_ses:finish", "null_ses:complete", "null_ses:gettab", "null_ses:setavail"};
            for (int i = 0; i < nf; i++) {
                size_t pos = 2 + rng.below(mine.size() - 1);
                Op p; p.ses = sid; p.op = "FAULT"; p.arg = kinds[rng.below(9)]; p.t = mine[std::min(pos, mine.size() - 1)].t;
                mine.insert(mine.begin() + std::min(pos, mine.size()), Ev{p.t, 0, p}); cnt("api_faults_planned");
            }
        }
        // receiver faults: abandon at an arbitrary event index, possibly followed by a restart
        bool abandoned = false; int64_t t_ab = 0; size_t cut = 0;
        if (sw.abandon && !big && rng.chance(prof == "C08" ? 0.6 : 0.3)) {
            cut = 1 + rng.below(mine.size());
            t_ab = cut < mine.size() ? mine[cut].t : t_end;
            abandoned = cut < mine.size();
            if (abandoned) { mine.resize(cut); cnt("abandons"); }
        }
        for (auto &e : mine) { e.seq = seq++; evs.push_back(e); }
        emit(abandoned ? t_ab : t_end, sid, "RELEASE");
        if (abandoned && sw.restart && rng.chance(0.6) && tag != "restart") {
            cnt("restarts");
            std::vector<Arrival> later;
            bool refeed = rng.chance(0.5);
            for (auto &a : arr) { if (a.t >= t_ab) later.push_back(a); else if (refeed) later.push_back(Arrival{t_ab + 20, a.esi, a.dup}); }
            if (refeed) cnt("restart_refed_kept_packets");
            std::stable_sort(later.begin(), later.end(), [](const Arrival &a, const Arrival &b) { return a.t < b.t; });
            Swarm sw2 = sw; sw2.abandon = false;
            receiver(f, codec, m, later, t_ab + 10, sw2, tx, "", "restart");
        }
    }

    // ---------------------------------------------------------------- one flow = one block, one sender, 1..3 receivers
    // A very large LDPC block whose sessions are only configured (and, for the encoder, asked for their first repair
    // symbols): the parity-check matrix of both roles is compared with the RFC 5170 model at the sizes where 16-bit
    // counters, multi-block sparse matrices and long choice lists matter, at the cost of a few tenths of a second.
    void matrix_only_flow(int64_t t0) {
        Flow f; f.id = next_flow++; f.codec = C_LDPC; f.m = 0;
        f.N1 = (uint32_t)rng.range(3, 10);
        f.k = (uint32_t)rng.range(5000, 40000);
        static const double rates[] = {0.5, 0.6, 2.0 / 3, 0.75, 0.8, 0.9};
        double rate = rates[rng.below(6)];
        f.r = std::max<uint32_t>(f.N1, (uint32_t)std::llround(f.k * (1 - rate) / rate));
        if (f.k + f.r > 50000) f.r = 50000 - f.k;
        if (f.r < f.N1) f.r = f.N1;
        f.pseed = (uint32_t)rng.range(1, 2147483646LL); f.E = 1 + (uint32_t)rng.below(4); f.payload = "rand"; f.plseed = rng.next() & 0xffffffffu;
        plan.flows.push_back(f);
        int enc = add_session(f.id, C_LDPC, 0, R_ENC, "stream", "none", "flow", "real");
        emit(t0, enc, "CREATE"); emit(t0 + 5, enc, "SETP"); emit(t0 + 8, enc, "CTRL");
        for (uint32_t j = 0; j < 3 && j < f.r; j++) emit(t0 + 10 + j, enc, "BUILD", f.k + j, "own");
        emit(t0 + 40, enc, "RELEASE");
        int dec = add_session(f.id, C_LDPC, 0, R_DEC, "stream", "none", "flow", "ref");
        emit(t0 + 50, dec, "CREATE"); emit(t0 + 55, dec, "SETP");
        for (uint32_t j = 0; j < 5; j++) emit(t0 + 60 + j, dec, "DELIVER", (int64_t)rng.below(f.k + f.r));
        emit(t0 + 90, dec, "RELEASE");
        cnt("matrix_only_big_flows");
    }

    Flow last_flow; bool have_last = false;
    void flow(int64_t t0, const Swarm &sw, bool sibling = false) {
        int codec, m; pick_codec(codec, m);
        Flow f;
        if (!(sibling && have_last && make_sibling(last_flow, f))) f = make_flow(codec, m);
        codec = f.codec; m = f.m;
        last_flow = f; have_last = f.oti.empty();
        if (sw.oti_corrupt && (prof == "C09" ? rng.chance(0.8) : rng.chance(0.15)) && codec != C_2D) corrupt_oti(f);
        else if (prof == "C15" && codec == C_LDPC && f.oti.empty() && rng.chance(0.08)) {
            // fewer repair symbols than N1: outside the advertised domain; if a session is configured all the same, its
            // "last symbol is null" claim is still checked against the symbol it builds
            f.N1 = (uint32_t)rng.range(4, 10); f.r = (uint32_t)rng.range(1, f.N1 - 1); f.oti = "N1"; cnt("oti_corruptions");
        }
        plan.flows.push_back(f);
        const bool rs8 = family_of(codec, m) == 8;
        // who sends: a real encoder session, the reference sender (models only), or both (receivers pick)
        double u = rng.unit();
        bool real_sender = true, ref_rx = false;
        if (prof == "C06" || prof == "C15") real_sender = true;
        else if (prof == "C01" || prof == "C02" || prof == "C03" || prof == "C04" || prof == "C10" || prof == "C11") real_sender = u < 0.5;
        else if (prof == "C05") real_sender = u < 0.7;
        else if (prof == "C12" || prof == "C07" || prof == "C08") real_sender = u < 0.7;     // a decoder may be the first user of its codec
        if (!f.oti.empty()) real_sender = true;
        if (prof == "C05" || prof == "C06" || rng.chance(0.3)) ref_rx = true;
        int enc_codec = codec, enc_m = m;
        if (rs8 && (prof == "C06" || rng.chance(0.25))) { if (rng.chance(0.5)) { enc_codec = C_RS8; enc_m = 0; } else { enc_codec = C_RS2M; enc_m = 8; } if (enc_codec != codec) cnt("cross_codec_flows"); }
        int64_t t_tx = t0 + 100, rel = 0;
        if (real_sender) t_tx = sender(f, enc_codec, enc_m, t0, sw, false, rel);
        bool usable = drivable(f, codec, m) || codec == C_2D;
        if ((prof == "C05" || (codec == C_LDPC && rng.chance(0.1))) && usable && materialisable(f) && f.k <= 4096) {
            // probe sender: identity payload would reveal every equation; here the probe is simply a second, independent
            // encoder session on the same block (its output is compared with the model like any other)
            int64_t r2; sender(f, codec, m, t0 + (int64_t)rng.below(200), sw, true, r2);
            emit(r2 + 50, plan.sessions.back().id, "RELEASE");
        }
        bool skip_last = false;
        if (codec == C_LDPC && usable && materialisable(f) && (f.N1 % 2 == 0) && !is_big(f)) {
            auto code = h5170(f.k, f.r, f.N1, f.pseed);
            if (!code->extra_entries && rng.chance(0.75)) skip_last = true;
        }
        int64_t pace = (int64_t)rng.range(100, 1500);
        std::vector<uint32_t> tx;
        if (usable && materialisable(f)) tx = tx_schedule(f, skip_last);
        bool truncated = false;
        if (is_big(f) && !tx.empty() && !rng.chance(thorough ? 0.5 : 0.08)) {
            // most large blocks are only driven for their first few hundred packets (acceptance + partial use); the
            // whole block is streamed in a minority of runs because it costs seconds under ASan
            tx.resize(std::min<size_t>(tx.size(), 100 + rng.below(300))); truncated = true; cnt("big_block_truncated");
        }
        int nrx = (int)rng.range(1, prof == "C12" ? 2 : 3);
        if (prof == "C06") nrx = (int)rng.range(0, 1);
        if (!f.oti.empty() || is_big(f)) nrx = std::min(nrx, 1);
        std::vector<Arrival> first_arr;
        for (int i = 0; i < nrx; i++) {
            std::vector<Arrival> arr = channel(f, tx, t_tx, pace, sw);
            std::string rtx = real_sender ? ((ref_rx && rng.chance(0.4)) ? "ref" : "real") : "ref";
            int rc = codec, rm = m;
            if (rs8 && rng.chance(prof == "C06" ? 0.5 : 0.2)) { if (rc == C_RS8) { rc = C_RS2M; rm = 8; } else { rc = C_RS8; rm = 0; } }
            if (!f.oti.empty()) { rc = codec; rm = m; }
            // twins: same set, different order / duplicates / API
            if (i > 0 && !first_arr.empty() && rng.chance(0.35) && (codec == C_LDPC)) {
                arr = first_arr; for (auto &a : arr) a.t = t_tx + 1000 + (int64_t)rng.below((uint64_t)(pace * tx.size() + 1));
                std::stable_sort(arr.begin(), arr.end(), [](const Arrival &a, const Arrival &b) { return a.t < b.t; });
                if (rng.chance(0.5) && !arr.empty()) { Arrival d = arr[rng.below(arr.size())]; d.dup = true; d.t += 10; arr.push_back(d); std::stable_sort(arr.begin(), arr.end(), [](const Arrival &a, const Arrival &b) { return a.t < b.t; }); }
                cnt("twin_receivers");
            }
            if (i == 0) first_arr = arr;
            receiver(f, rc, rm, arr, t0 + 30 + (int64_t)rng.below(60), sw, rtx, truncated ? "stream" : "", "flow");
        }
        if (real_sender && rel) {
            // the encoder session is released at a drawn instant, possibly long before the last packet left (early release)
            int64_t t_last = t_tx + pace * (int64_t)tx.size();
            int64_t t_rel = rng.chance(0.4) ? rel : rel + (int64_t)rng.below((uint64_t)(t_last - rel + 1000));
            int enc_sid = -1;
            for (auto &s : plan.sessions) if (s.flow == f.id && s.role == R_ENC && s.tag == "flow") enc_sid = s.id;
            bool already = false;
            for (auto &e : evs) if (e.op.ses == enc_sid && e.op.op == "RELEASE") already = true;
            if (enc_sid >= 0 && !already) { emit(t_rel, enc_sid, "RELEASE"); if (t_rel < t_last) cnt("encoder_released_before_last_packet"); }
        }
        plan.sim_us = std::max(plan.sim_us, t_tx + pace * (int64_t)tx.size() + 250000);
    }

    Plan run(uint64_t seed, uint64_t run_index) {
        plan.seed = seed; plan.run = run_index; plan.profile = prof;
        plan.scramble = (rng.next() % 2147483646ULL) + 1;
        Swarm sw;
        sw.near_threshold = rng.chance(0.5);
        sw.loss = rng.unit() * 0.8;
        if (rng.chance(0.1)) sw.loss = 0;
        sw.burst = rng.chance(0.25);
        sw.dup_on = rng.chance(0.5); sw.dup_rate = rng.unit() * 0.3;
        sw.reorder_on = rng.chance(0.6); sw.jitter_mult = rng.unit() * 5;
        sw.abandon = rng.chance(prof == "C08" || prof == "C07" ? 0.7 : 0.3);
        sw.restart = rng.chance(0.5);
        sw.api_faults = prof == "C09" ? rng.chance(0.8) : (prof == "C07" ? rng.chance(0.2) : rng.chance(0.05));
        sw.oti_corrupt = prof == "C09" ? true : (prof == "C07" ? rng.chance(0.1) : false);
        sw.null_slot_rate = (prof == "C06" || prof == "C07" || prof == "C08") ? (rng.chance(0.6) ? rng.unit() : 0) : (rng.chance(0.2) ? rng.unit() * 0.5 : 0);
        if (!o.allow_null_slot) sw.null_slot_rate = 0;
        sw.late_after_finish = true;
        int nfl = (int)rng.range(1, 3);
        if (prof == "C12") nfl = (int)rng.range(2, 5);
        if (prof == "C05") nfl = (int)rng.range(2, 4);
        int64_t t0 = 0;
        if ((prof == "C05" || prof == "C06" || prof == "C07" || prof == "C08" || prof == "C12") && rng.chance(thorough ? 0.02 : 0.006)) { matrix_only_flow(t0); t0 += 200; }
        for (int i = 0; i < nfl; i++) {
            flow(t0, sw, i > 0 && rng.chance(prof == "C12" || prof == "C06" || prof == "C07" ? 0.5 : 0.3));
            // flows overlap in time (one thread, interleaved calls) or follow each other
            if (prof == "C12" || rng.chance(0.7)) t0 += (int64_t)rng.below(3000); else t0 = plan.sim_us + 1000;
        }
        std::stable_sort(evs.begin(), evs.end(), [](const Ev &a, const Ev &b) { return a.t != b.t ? a.t < b.t : a.seq < b.seq; });
        // cold start sample: first use of codec 1 happens inside this run, in a process that never touched the library
        bool has_rs8 = false;
        for (auto &s : plan.sessions) if (s.codec == C_RS8) has_rs8 = true;
        plan.cold = cold_candidate(seed, run_index) && rng.chance(has_rs8 ? 0.7 : 0.3);
        for (auto &e : evs) plan.ops.push_back(e.op);
        if (plan.ops.size() > 60000) plan.ops.resize(60000);
        return plan;
    }
};

}  // namespace

// ------------------------------------------------------------------------------------------------ sweeps
// Bounded fault enumeration for tiny blocks (DESIGN 2.6): the channel's drop decision is enumerated instead of drawn -
// every one of the 2^n received subsets of every configuration in a fixed list, each with one seeded arrival order,
// duplicate pattern and submission API. Same executor, same oracles.
std::vector<SweepConfig> sweep_configs(const std::string &prof, uint64_t seed) {
    std::vector<SweepConfig> v;
    if (prof == "C02") {
        for (uint32_t n = 2; n <= 15; n++) for (uint32_t k = 1; k < n; k++) v.push_back({C_RS2M, 4, k, n - k, 0, 0});
        for (uint32_t n = 2; n <= 10; n++) for (uint32_t k = 1; k < n; k++) { v.push_back({C_RS2M, 8, k, n - k, 0, 0}); v.push_back({C_RS8, 0, k, n - k, 0, 0}); }
    } else if (prof == "C03" || prof == "C04") {
        Rng g(mix64(seed, 0x5EED));
        for (uint32_t N1 = 3; N1 <= 6; N1++)
            for (uint32_t k = 1; k <= 8; k++)
                for (uint32_t r = N1; k + r <= 12; r++)
                    v.push_back({C_LDPC, 0, k, r, N1, (uint32_t)g.range(1, 2147483646LL)});
    } else if (prof == "C16") {
        for (uint32_t k = 1; k <= 16; k++) for (uint32_t r = 1; k + r <= 24; r++) { uint32_t a, b; if (twod_factor(k, r, a, b)) v.push_back({C_2D, 0, k, r, 0, 0}); }
    }
    return v;
}

uint64_t sweep_total(const std::string &prof, uint64_t seed) {
    uint64_t t = 0;
    for (auto &c : sweep_configs(prof, seed)) t += 1ULL << (c.k + c.r);
    return t;
}

Plan generate_sweep_plan(uint64_t seed, uint64_t index, const GenOptions &opt) {
    static std::string cached_prof; static uint64_t cached_seed = ~0ULL; static std::vector<SweepConfig> cfgs; static std::vector<uint64_t> start;
    if (cached_prof != opt.profile || cached_seed != seed) {
        cfgs = sweep_configs(opt.profile, seed); start.assign(cfgs.size() + 1, 0);
        for (size_t i = 0; i < cfgs.size(); i++) start[i + 1] = start[i] + (1ULL << (cfgs[i].k + cfgs[i].r));
        cached_prof = opt.profile; cached_seed = seed;
    }
    Plan p; p.seed = seed; p.run = index; p.profile = opt.profile; p.gen["sweep"] = 1;
    size_t ci = std::upper_bound(start.begin(), start.end(), index) - start.begin() - 1;
    if (ci >= cfgs.size()) return p;
    const SweepConfig &c = cfgs[ci];
    uint64_t mask = index - start[ci];
    Rng g(mix64(mix64(seed, index), 0x53574550));
    p.scramble = (g.next() % 2147483646ULL) + 1;
    Flow f; f.id = 0; f.codec = c.codec; f.m = c.m; f.k = c.k; f.r = c.r; f.N1 = c.N1; f.pseed = c.pseed;
    f.E = 1 + (uint32_t)g.below(9); f.payload = g.chance(0.8) ? "rand" : "ident"; f.plseed = g.next() & 0xffffffffu;
    if (f.payload == "ident" && f.E * 8 < f.k) f.E = (f.k + 7) / 8;
    p.flows.push_back(f);
    Session s; s.id = 0; s.flow = 0; s.codec = c.codec; s.m = c.m; s.role = R_DEC; s.tx = "ref"; s.tag = "sweep"; s.align = (int)g.below(16);
    double u = g.unit();
    if (opt.profile == "C04") s.mode = "stream";
    else if (opt.profile == "C03") s.mode = u < 0.5 ? "finish" : "batch";
    else s.mode = u < 0.3 ? "stream" : u < 0.65 ? "finish" : "batch";
    s.cb = g.chance(0.2) ? (g.chance(0.5) ? "buf" : "mix") : "none"; s.cbseed = g.next() & 0xffff;
    p.sessions.push_back(s);
    auto op = [&](const char *o, int64_t esi = -1, uint64_t rs = 0) { Op x; x.t = (int64_t)p.ops.size(); x.ses = 0; x.op = o; x.esi = esi; x.rs = rs; p.ops.push_back(x); };
    op("CREATE"); op("SETP"); if (s.cb != "none") op("SETCB");
    std::vector<uint32_t> got;
    uint32_t n = c.k + c.r;
    for (uint32_t e = 0; e < n; e++) if (mask & (1ULL << e)) got.push_back(e);
    if (!got.empty()) g.shuffle(got.data(), got.size());
    for (uint32_t e : got) {
        op(s.mode == "batch" ? "STORE" : "DELIVER", e);
        if (g.chance(0.05)) op(s.mode == "batch" ? "STORE" : "DELIVER", got[g.below(got.size())]);
    }
    if (s.mode == "batch") op("SETAVAIL");
    if (s.mode != "stream") op("FINISH", -1, (g.next() & 0xffffff) + 1);
    op("RELEASE");
    p.gen["dropped"] = (int64_t)(n - got.size()); p.gen["delivered"] = (int64_t)got.size();
    return p;
}

// run indices whose plan may ask for a cold start (a pure function of seed and index, so that the worker's supervisor
// can run them in a pristine child without generating the plan first)
bool cold_candidate(uint64_t seed, uint64_t run) { return mix64(seed ^ 0xC01DULL, run) % 25 == 0; }

Plan generate_plan(uint64_t seed, uint64_t run, const GenOptions &opt) {
    Hash64 h; h.str(opt.profile.c_str());
    uint64_t s = mix64(mix64(seed, run), h.h);
    Gen g(s, opt);
    return g.run(seed, run);
}
