// Harness-side knowledge shared by the generator and the executor (never calls the library).
#pragma once
#include "plan.h"
#include <string>
#include <cstdint>

// ---------------------------------------------------------------- expected parameter domain (C09)
struct Domain { bool inside; std::string why; };
// The limits are the ADVERTISED ones (OF_CTRL_GET_MAX_K / OF_CTRL_GET_MAX_N): the executor passes what the session reports;
// the defaults below are what the unchanged library advertises and what the generator (which never calls the library) uses.
inline Domain in_domain(int codec, int m, uint64_t k, uint64_t r, uint64_t E, uint64_t N1, uint64_t seed, uint64_t adv_maxk = 0, uint64_t adv_maxn = 0) {
    uint64_t maxk = 0, maxn = 0;
    if (codec == C_RS8) { maxk = 255; maxn = 255; }
    else if (codec == C_RS2M) {
        if (m != 4 && m != 8) return {false, "m"};
        maxk = maxn = (1u << m) - 1;
    } else if (codec == C_LDPC) { maxk = 50000; maxn = 50000; }
    else return {true, ""};
    if (adv_maxk && codec != C_RS2M) maxk = adv_maxk;
    if (adv_maxn && codec != C_RS2M) maxn = adv_maxn;
    if (k < 1) return {false, "k=0"};
    if (k > maxk) return {false, "k>max"};
    if (r < 1) return {false, "r=0"};
    if (k + r > maxn) return {false, "n>max"};
    if (E < 1) return {false, "E=0"};
    if (codec == C_LDPC) {
        if (N1 < 3) return {false, "N1<3"};
        if (N1 > r) return {false, "N1>r"};
        if (seed < 1 || seed > 2147483646ULL) return {false, "seed"};
    }
    return {true, ""};
}

inline bool materialisable(const Flow &f) {
    if (f.k == 0 || f.r == 0 || f.E == 0) return false;
    if (f.k > 140000 || f.r > 140000 || f.E > (1u << 20)) return false;
    if ((uint64_t)(f.k + f.r) * f.E > (96ull << 20)) return false;
    return true;
}

inline int family_of(int codec, int m) {   // which code a (codec, m) pair speaks
    if (codec == C_RS8) return 8;
    if (codec == C_RS2M) return m == 4 ? 4 : (m == 8 ? 8 : -1);
    if (codec == C_LDPC) return 3;
    if (codec == C_2D) return 5;
    return -1;
}

inline const char *codec_name(int codec, int m) {
    switch (codec) {
    case C_RS8: return "rs8";
    case C_RS2M: return m == 4 ? "rs2m4" : "rs2m8";
    case C_LDPC: return "ldpc";
    case C_2D: return "2d";
    }
    return "codec?";
}

