// Allocation ledger (seam E7): every malloc/calloc/realloc/free of the whole program goes through the
// --wrap wrappers in ledger.cc; allocations made while a library call is on the stack are recorded with
// the simulator's session id and the allocating library function.
#pragma once
#include <cstdint>
#include <cstddef>
#include <string>
#include <vector>

struct LedgerEntry {
    void *ptr; size_t size; int ses; uint64_t seq; std::string site;
};

struct LedgerEvent {          // something the free()/realloc() wrappers saw that must never happen
    std::string kind;         // "lib-frees-app-memory"
    int ses; std::string site; uint64_t seq;
};

void ledger_reset();                                   // start of a run
void ledger_protect(void *p, size_t size, int ses);     // application buffer the library must never free
void ledger_unprotect(void *p);
bool ledger_is_lib_alloc(void *p);                      // live allocation made by the library
int  ledger_owner(void *p);                             // session id or -1
size_t ledger_size(void *p);
void ledger_handover(void *p);                          // library allocation now owned by the application
std::vector<LedgerEntry> ledger_live_of(int ses);       // live library allocations of a session, not handed over, by seq
std::vector<void *> ledger_reachable_from_statics();     // live library blocks reachable from .data/.bss (LSan semantics)
size_t ledger_live_count();
std::vector<LedgerEvent> ledger_take_events();
uint64_t ledger_lib_allocs();                           // counter
uint64_t ledger_lib_frees();
uint64_t ledger_refused_huge();                         // allocations above the simulated machine's 1 GiB limit
std::string symbolize(const void *addr);
