// Seeded PRNG for the simulator: xoshiro256** seeded through splitmix64.
// Every random decision of a run comes from one instance of this, created from
// mix(VERIF_SEED, run_index). Execution of a plan never draws from it.
#pragma once
#include <cstdint>
#include <cstddef>

static inline uint64_t splitmix64(uint64_t &x) {
    uint64_t z = (x += 0x9E3779B97F4A7C15ULL);
    z = (z ^ (z >> 30)) * 0xBF58476D1CE4E5B9ULL;
    z = (z ^ (z >> 27)) * 0x94D049BB133111EBULL;
    return z ^ (z >> 31);
}

static inline uint64_t mix64(uint64_t a, uint64_t b) {
    uint64_t x = a * 0x9E3779B97F4A7C15ULL + b + 0x632BE59BD9B4E019ULL;
    uint64_t r = splitmix64(x);
    r ^= splitmix64(x);
    return r;
}

struct Rng {
    uint64_t s[4];
    explicit Rng(uint64_t seed = 1) { reseed(seed); }
    void reseed(uint64_t seed) {
        uint64_t x = seed;
        for (int i = 0; i < 4; i++) s[i] = splitmix64(x);
    }
    static inline uint64_t rotl(uint64_t x, int k) { return (x << k) | (x >> (64 - k)); }
    uint64_t next() {
        const uint64_t result = rotl(s[1] * 5, 7) * 9;
        const uint64_t t = s[1] << 17;
        s[2] ^= s[0]; s[3] ^= s[1]; s[1] ^= s[2]; s[0] ^= s[3];
        s[2] ^= t; s[3] = rotl(s[3], 45);
        return result;
    }
    // uniform in [0, n)  (n > 0)
    uint64_t below(uint64_t n) {
        // multiply-shift; bias is negligible for the sizes used and, more importantly, deterministic
        return (uint64_t)(((__uint128_t)next() * n) >> 64);
    }
    // uniform in [lo, hi] inclusive
    int64_t range(int64_t lo, int64_t hi) { return lo + (int64_t)below((uint64_t)(hi - lo + 1)); }
    bool chance(double p) { return (next() >> 11) * (1.0 / 9007199254740992.0) < p; }
    double unit() { return (next() >> 11) * (1.0 / 9007199254740992.0); }
    template <class T> void shuffle(T *a, size_t n) {
        for (size_t i = n; i > 1; i--) { size_t j = below(i); T t = a[i - 1]; a[i - 1] = a[j]; a[j] = t; }
    }
};

// FNV-1a style 64-bit hashing used for event-log hashes and fingerprints (no pointers ever go in).
struct Hash64 {
    uint64_t h = 0xcbf29ce484222325ULL;
    void byte(uint8_t b) { h ^= b; h *= 0x100000001b3ULL; }
    void u64(uint64_t v) { for (int i = 0; i < 8; i++) byte((uint8_t)(v >> (8 * i))); }
    void bytes(const void *p, size_t n) { const uint8_t *b = (const uint8_t *)p; for (size_t i = 0; i < n; i++) byte(b[i]); }
    void str(const char *s) { while (*s) byte((uint8_t)*s++); byte(0); }
};
