/* C boundary between the C++17 simulator and the openfec library.
 * Everything crosses as the C side defines it (the API's `bool` is a 32-bit macro for C callers). */
#ifndef FECSIM_ADAPTER_H
#define FECSIM_ADAPTER_H
#include <stdint.h>
#include <stddef.h>
#ifdef __cplusplus
extern "C" {
#endif

typedef struct {
    uint32_t k, r, E;
    uint32_t m;        /* codec 2 */
    uint32_t N1;       /* codec 3 (UINT8 in the API: truncated there, as an application would) */
    uint32_t seed;     /* codec 3 (INT32 in the API) */
} ad_params;

typedef void *(*ad_cb)(void *ctx, uint32_t size, uint32_t esi);

/* depth of library calls on the stack (0 while in harness code or inside an application callback)
 * and the simulator's id of the session the current call belongs to; read by the allocator ledger. */
extern volatile int g_in_lib;
extern volatile int g_cur_ses;

void ad_global_reset(uint64_t scramble);

int ad_create(void **ses, int codec, int role, int sid);
int ad_release(void *ses, int sid);
int ad_set_params(void *ses, int codec, const ad_params *p, int null_params, int sid);
int ad_set_cb(void *ses, ad_cb src_cb, ad_cb rep_cb, void *ctx, int sid);
int ad_build(void *ses, void **tab, uint32_t esi, int sid);
int ad_decode(void *ses, void *buf, uint32_t esi, int sid);
int ad_set_avail(void *ses, void **tab, int sid);
int ad_finish(void *ses, int sid);
int ad_is_complete(void *ses, int sid);              /* 0 / 1 */
int ad_get_tab(void *ses, void **tab, int sid);
int ad_ctrl_u32(void *ses, uint32_t type, uint32_t *val, int sid);
int ad_ctrl_lastnull(void *ses, int *val, int sid);
int ad_set_field_size(void *ses, uint32_t m, int sid);       /* codec 2: OF_RS_CTRL_SET_FIELD_SIZE */

/* libc rand() seam: the stream the library sees from now on */
void ad_set_rand_stream(uint64_t seed);
uint64_t ad_rand_calls(void);
void ad_set_rand_mode(int mode);
uint64_t ad_rand_degenerate_calls(void);

/* white-box shim (compiled with the library's own headers) */
typedef void (*shim_entry_fn)(void *ctx, uint32_t row, uint32_t esi);
int shim_pchk_walk(void *ses, shim_entry_fn fn, void *ctx);   /* -1: no matrix */
int shim_extra_entries(void *ses);
void shim_warm_rs(void);
int shim_available(void);                                      /* 0 when the stub is linked */
void shim_scramble_prng(uint64_t scramble);

#ifdef __cplusplus
}
#endif
#endif
