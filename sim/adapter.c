/* Compiled as C with the library's own headers: see adapter.h. */
#include <string.h>
#include <stdlib.h>
#include "adapter.h"
#include "lib_common/of_openfec_api.h"

volatile int g_in_lib = 0;
volatile int g_cur_ses = -1;


#define ENTER(sid) int _prev_ses = g_cur_ses; g_cur_ses = (sid); g_in_lib++
#define LEAVE() g_in_lib--; g_cur_ses = _prev_ses

void ad_global_reset(uint64_t scramble)
{
    of_verbosity = 0;
    shim_scramble_prng(scramble);
}

int ad_create(void **ses, int codec, int role, int sid)
{
    of_session_t *s = NULL;
    ENTER(sid);
    int st = (int)of_create_codec_instance(&s, (of_codec_id_t)codec, (of_codec_type_t)role, 0);
    LEAVE();
    *ses = s;
    return st;
}

int ad_release(void *ses, int sid)
{
    ENTER(sid);
    int st = (int)of_release_codec_instance((of_session_t *)ses);
    LEAVE();
    return st;
}

int ad_set_params(void *ses, int codec, const ad_params *p, int null_params, int sid)
{
    int st;
    ENTER(sid);
    if (null_params) {
        st = (int)of_set_fec_parameters((of_session_t *)ses, NULL);
    } else if (codec == OF_CODEC_REED_SOLOMON_GF_2_M_STABLE) {
        of_rs_2_m_parameters_t q;
        memset(&q, 0, sizeof q);
        q.nb_source_symbols = p->k; q.nb_repair_symbols = p->r; q.encoding_symbol_length = p->E;
        q.m = (UINT16)p->m;
        st = (int)of_set_fec_parameters((of_session_t *)ses, (of_parameters_t *)&q);
    } else if (codec == OF_CODEC_LDPC_STAIRCASE_STABLE) {
        of_ldpc_parameters_t q;
        memset(&q, 0, sizeof q);
        q.nb_source_symbols = p->k; q.nb_repair_symbols = p->r; q.encoding_symbol_length = p->E;
        q.prng_seed = (INT32)p->seed; q.N1 = (UINT8)p->N1;
        st = (int)of_set_fec_parameters((of_session_t *)ses, (of_parameters_t *)&q);
    } else if (codec == OF_CODEC_2D_PARITY_MATRIX_STABLE) {
        of_2d_parity_parameters_t q;
        memset(&q, 0, sizeof q);
        q.nb_source_symbols = p->k; q.nb_repair_symbols = p->r; q.encoding_symbol_length = p->E;
        st = (int)of_set_fec_parameters((of_session_t *)ses, (of_parameters_t *)&q);
    } else {
        of_rs_parameters_t q;
        memset(&q, 0, sizeof q);
        q.nb_source_symbols = p->k; q.nb_repair_symbols = p->r; q.encoding_symbol_length = p->E;
        st = (int)of_set_fec_parameters((of_session_t *)ses, (of_parameters_t *)&q);
    }
    LEAVE();
    return st;
}

int ad_set_cb(void *ses, ad_cb src_cb, ad_cb rep_cb, void *ctx, int sid)
{
    ENTER(sid);
    int st = (int)of_set_callback_functions((of_session_t *)ses,
                (void *(*)(void *, UINT32, UINT32))src_cb,
                (void *(*)(void *, UINT32, UINT32))rep_cb, ctx);
    LEAVE();
    return st;
}

int ad_build(void *ses, void **tab, uint32_t esi, int sid)
{
    ENTER(sid);
    int st = (int)of_build_repair_symbol((of_session_t *)ses, tab, esi);
    LEAVE();
    return st;
}

int ad_decode(void *ses, void *buf, uint32_t esi, int sid)
{
    ENTER(sid);
    int st = (int)of_decode_with_new_symbol((of_session_t *)ses, buf, esi);
    LEAVE();
    return st;
}

int ad_set_avail(void *ses, void **tab, int sid)
{
    ENTER(sid);
    int st = (int)of_set_available_symbols((of_session_t *)ses, tab);
    LEAVE();
    return st;
}

int ad_finish(void *ses, int sid)
{
    ENTER(sid);
    int st = (int)of_finish_decoding((of_session_t *)ses);
    LEAVE();
    return st;
}

int ad_is_complete(void *ses, int sid)
{
    ENTER(sid);
    bool b = of_is_decoding_complete((of_session_t *)ses);
    LEAVE();
    return b ? 1 : 0;
}

int ad_get_tab(void *ses, void **tab, int sid)
{
    ENTER(sid);
    int st = (int)of_get_source_symbols_tab((of_session_t *)ses, tab);
    LEAVE();
    return st;
}

int ad_ctrl_u32(void *ses, uint32_t type, uint32_t *val, int sid)
{
    UINT32 v = 0;
    ENTER(sid);
    int st = (int)of_get_control_parameter((of_session_t *)ses, type, &v, sizeof v);
    LEAVE();
    *val = v;
    return st;
}

int ad_ctrl_lastnull(void *ses, int *val, int sid)
{
    bool b = 0;   /* the API's own 32-bit bool */
    ENTER(sid);
    int st = (int)of_get_control_parameter((of_session_t *)ses, OF_CRTL_LDPC_STAIRCASE_IS_LAST_SYMBOL_NULL, &b, sizeof b);
    LEAVE();
    *val = b ? 1 : 0;
    return st;
}

int ad_set_field_size(void *ses, uint32_t m, int sid)
{
    UINT16 v = (UINT16)m;
    ENTER(sid);
    int st = (int)of_set_control_parameter((of_session_t *)ses, OF_RS_CTRL_SET_FIELD_SIZE, &v, sizeof v);
    LEAVE();
    return st;
}

/* ---- libc rand() seam (E6). Linked with -Wl,--wrap=rand. ------------------------------------ */
static uint64_t g_rand_state = 0x9E3779B97F4A7C15ULL;
static uint64_t g_rand_calls = 0;
/* degenerate-but-legal libc streams (fault kind "rand_degenerate"): rand() may return any value of [0, RAND_MAX] in any
 * pattern; 1 = always 0, 2 = always RAND_MAX, 3 = alternating 0 / RAND_MAX, 4 = a counter. 0 = ordinary stream. */
static int g_rand_mode = 0;
static uint64_t g_rand_degenerate = 0;

void ad_set_rand_stream(uint64_t seed) { g_rand_state = seed * 2 + 1; g_rand_mode = 0; }
void ad_set_rand_mode(int mode) { g_rand_mode = mode; }
uint64_t ad_rand_calls(void) { return g_rand_calls; }
uint64_t ad_rand_degenerate_calls(void) { return g_rand_degenerate; }

static uint64_t next_rand(void);
long __wrap_random(void) { return (long)(next_rand() & 0x7fffffff); }
long __wrap_lrand48(void) { return (long)(next_rand() & 0x7fffffff); }
double __wrap_drand48(void) { return (double)(next_rand() & 0x7fffffff) / 2147483648.0; }
int __wrap_rand_r(unsigned int *s) { (void)s; return (int)(next_rand() & 0x7fffffff); }

int __wrap_rand(void)
{
    return (int)(next_rand() & 0x7fffffff);
}

static uint64_t next_rand(void)
{
    g_rand_calls++;
    if (g_rand_mode) {
        g_rand_degenerate++;
        switch (g_rand_mode) {
        case 1: return 0;
        case 2: return 0x7fffffff;
        case 3: return (g_rand_calls & 1) ? 0x7fffffff : 0;
        default: return g_rand_calls;
        }
    }
    g_rand_state ^= g_rand_state << 13;
    g_rand_state ^= g_rand_state >> 7;
    g_rand_state ^= g_rand_state << 17;
    return g_rand_state >> 17;
}

/* one throw-away codec-1 encode so that the lazily built GF(2^8) tables exist ("warm" process) */
void shim_warm_rs(void)
{
    of_session_t *s = NULL;
    of_rs_parameters_t q;
    unsigned char a[4] = {1, 2, 3, 4}, b[4] = {5, 6, 7, 8}, c[4];
    void *tab[3] = {a, b, c};
    if (of_create_codec_instance(&s, OF_CODEC_REED_SOLOMON_GF_2_8_STABLE, OF_ENCODER, 0) != OF_STATUS_OK)
        return;
    memset(&q, 0, sizeof q);
    q.nb_source_symbols = 2; q.nb_repair_symbols = 1; q.encoding_symbol_length = 4;
    of_set_fec_parameters(s, (of_parameters_t *)&q);
    of_build_repair_symbol(s, tab, 2);
    of_release_codec_instance(s);
}
