#pragma once
#include "plan.h"

struct GenOptions {
    std::string profile = "C01";
    bool thorough = false;
    // trigger avoidance for open known findings (DESIGN H8); all true when nothing is open
    bool allow_null_cb = true;
    bool allow_null_slot = true;
};

// plan = f(VERIF_SEED, run index, profile) and nothing else
Plan generate_plan(uint64_t seed, uint64_t run, const GenOptions &opt);
