#pragma once
#include "plan.h"
#include <vector>

struct GenOptions {
    std::string profile = "C01";
    bool thorough = false;
    // trigger avoidance for open known findings (DESIGN H8); all true when nothing is open
    bool allow_null_cb = true;
    bool allow_null_slot = true;
    bool allow_both = true;
};

struct SweepConfig { int codec, m; uint32_t k, r, N1, pseed; };
std::vector<SweepConfig> sweep_configs(const std::string &profile, uint64_t seed);
uint64_t sweep_total(const std::string &profile, uint64_t seed);
Plan generate_sweep_plan(uint64_t seed, uint64_t index, const GenOptions &opt);   // index -> (configuration, received subset)

bool cold_candidate(uint64_t seed, uint64_t run);

// plan = f(VERIF_SEED, run index, profile) and nothing else
Plan generate_plan(uint64_t seed, uint64_t run, const GenOptions &opt);
