#include "exec.h"
#include "adapter.h"
#include "ledger.h"
#include "models.h"
#include "prng.h"
#include "common.h"
#include <algorithm>
#include <cstring>
#include <cstdio>
#include <cstdlib>
#include <memory>
#include <unistd.h>
#include <cstdint>

StatusPage *g_status = nullptr;

namespace {

// ---------------------------------------------------------------- application buffers
// Exact-size heap blocks: the symbol ends exactly where the malloc'ed block ends, so one byte too far is an
// ASan report; `align` (0..15) is the misalignment of the first byte relative to a 16-byte boundary.
struct AppBuf {
    uint8_t *base = nullptr; uint8_t *p = nullptr; size_t len = 0; uint64_t sum = 0;
};
uint64_t checksum(const uint8_t *p, size_t n) { Hash64 h; h.bytes(p, n); return h.h; }

AppBuf app_alloc(size_t len, int align, const uint8_t *content) {
    AppBuf b;
    size_t total = (size_t)align + len;
    if (total == 0) total = 1;
    void *mem = nullptr;
    if (posix_memalign(&mem, 16, total) != 0 || !mem) { fprintf(stderr, "fecsim: out of memory\n"); _exit(3); }
    b.base = (uint8_t *)mem; b.p = b.base + align; b.len = len;
    if (content) memcpy(b.p, content, len); else memset(b.p, 0xA5, len);
    b.sum = checksum(b.p, len);
    return b;
}
void app_free(AppBuf &b) { if (b.base) free(b.base); b.base = b.p = nullptr; }

// ---------------------------------------------------------------- per-flow context
struct FlowCtx {
    const Flow *f = nullptr;
    bool ok = false;                                   // materialised (data and reference code exist)
    int family = -1;
    std::vector<std::vector<uint8_t>> src;             // M-DATA
    std::shared_ptr<const BinCode> code;               // LDPC (M-H5170) / 2D (probed)
    std::vector<std::vector<uint8_t>> ref_rep;         // reference repair symbols (lazy for RS)
    std::vector<uint8_t> ref_have;
    std::map<uint32_t, std::vector<uint8_t>> real_rep; // what the real sender produced
    bool tainted = false;                              // the real sender failed O-ENC: decoders fed by it are not judged
    int lastnull_enc = -1, lastnull_dec = -1;
    bool probe_failed = false;
    bool candidate = false, tried = false;
};

struct CbEvent { uint32_t esi, size; void *ret; bool already_received; bool already_available; };

struct SesCtx {
    const Session *s = nullptr; FlowCtx *fc = nullptr; void *h = nullptr;
    bool created = false, setp_done = false, configured = false, cb_set = false, avail_done = false,
         finalised = false, released = false, complete_seen = false, dead = false;
    uint32_t k = 0, r = 0, n = 0, E = 0;
    // encoder
    void **enc_tab = nullptr; std::vector<AppBuf> enc_src; std::vector<AppBuf> enc_own; std::vector<uint8_t> built;
    std::vector<void *> enc_lib;      // library-allocated repair symbols handed to the application
    // decoder
    std::vector<uint8_t> got; uint32_t distinct = 0;
    std::vector<AppBuf> delivered; std::vector<uint32_t> delivered_esi;
    std::vector<void *> first_ptr; std::vector<int> store_idx; void **avail_tab = nullptr; std::vector<void *> avail_copy;
    std::vector<CbEvent> cbs; size_t cbs_checked = 0; std::vector<AppBuf> cb_bufs; std::vector<void *> cb_ret_for; std::vector<int> cb_count;
    std::vector<uint8_t> avail; std::vector<void *> last_ptr; uint32_t navail = 0;
    std::vector<void *> lib_owned_src;   // decoded source symbols the application must free
    Peel peel; bool has_peel = false; int lastnull = -1;
    std::vector<uint64_t> trace; std::vector<int> trace_ops; std::vector<std::string> trace_kind;
    bool finish_called = false; int finish_status = -1; bool complete_before_finish = false;
    uint32_t decoded_cnt = 0; uint64_t cb_calls = 0; uint64_t calls = 0;
    Hash64 order_hash;
    bool ml_needed = false, ml_recovered = false;
    bool in_cb_call = false;
    uint32_t store_count = 0;
    size_t mem_cursor = 0;
    bool implicit_last = false;
};

struct Executor {
    const Plan &plan; const ExecOptions &opt; PacketStore *capture;
    RunResult res;
    std::map<int, FlowCtx> flows;
    std::map<int, SesCtx> ses;
    int cur_op = -1;
    Hash64 log;
    Hash64 inter;
    SesCtx *cb_target = nullptr;

    Executor(const Plan &p, const ExecOptions &o, PacketStore *cap) : plan(p), opt(o), capture(cap) {}

    void count(const std::string &k, int64_t d = 1) { res.counts[k] += d; }

    void viol(const std::vector<const char *> &props, const std::string &cls, const std::string &key, const std::string &detail, SesCtx *sc) {
        for (const char *p : props) {
            // one record per (prop, class, key) per run is enough
            bool dup = false;
            for (auto &v : res.viol) if (v.prop == p && v.cls == cls && v.key == key) { dup = true; break; }
            if (dup) continue;
            Violation v; v.prop = p; v.cls = cls; v.key = key; v.detail = detail; v.op = cur_op; v.ses = sc ? sc->s->id : -1;
            res.viol.push_back(v);
        }
        if (opt.trace) fprintf(stderr, "  !! violation %s %s %s : %s\n", props.empty() ? "?" : props[0], cls.c_str(), key.c_str(), detail.c_str());
    }

    void status(SesCtx *sc, const char *what, bool corrupt) {
        if (!g_status) return;
        g_status->op = cur_op; g_status->corrupt = corrupt ? 1 : 0; g_status->ses_codec = sc ? sc->s->codec : 0;
        strncpy((char *)g_status->what, what, sizeof(g_status->what) - 1);
        g_status->in_call = 1;
    }
    void status_done() { if (g_status) g_status->in_call = 0; }

    // ------------------------------------------------------------ flows
    void gen_payload(FlowCtx &fc) {
        const Flow &f = *fc.f;
        fc.src.assign(f.k, std::vector<uint8_t>(f.E, 0));
        if (f.payload == "rand") {
            Rng g(mix64(f.plseed, 0x70617931));
            for (auto &s : fc.src) for (auto &b : s) b = (uint8_t)g.next();
        } else if (f.payload == "ident") {
            for (uint32_t i = 0; i < f.k; i++) fc.src[i][i % f.E] |= (uint8_t)(1u << ((i / f.E) % 8));
        } else if (f.payload == "ff") {
            for (auto &s : fc.src) for (auto &b : s) b = 0xFF;
        } // "zero": nothing
    }

    // cheap part: is this block worth materialising at all? (The expensive part - payload, reference code, reference
    // symbols - is done by materialise() when the first session of the flow has been accepted by the library.)
    FlowCtx &flow_ctx(int id) {
        auto it = flows.find(id);
        if (it != flows.end()) return it->second;
        FlowCtx &fc = flows[id];
        fc.f = plan.flow(id);
        if (!fc.f) return fc;
        const Flow &f = *fc.f;
        fc.family = family_of(f.codec, f.m);
        if (!materialisable(f) || fc.family < 0) return fc;
        // generously (far beyond the default limits): whether a session is *configured* is decided against the limits the
        // session itself advertises
        Domain d = in_domain(f.codec, f.m, f.k, f.r, f.E, f.N1, f.pseed, f.codec == C_LDPC ? 150000 : 0, f.codec == C_LDPC ? 150000 : 0);
        if (f.codec == C_2D) {
            // whatever (k, n-k) the codec accepts in the property's range is probed, product shape or not
            if (f.k > 16 || f.k + f.r > 24) return fc;
        } else if (!d.inside) return fc;
        fc.candidate = true;
        return fc;
    }

    void materialise(FlowCtx &fc) {
        if (fc.ok || !fc.candidate || fc.tried) return;
        fc.tried = true;
        const Flow &f = *fc.f;
        gen_payload(fc);
        if (f.codec == C_LDPC) fc.code = h5170(f.k, f.r, f.N1, f.pseed);
        else if (f.codec == C_2D) { fc.code = probe_2d(f); if (!fc.code) { fc.src.clear(); return; } }
        fc.ref_rep.assign(f.r, {}); fc.ref_have.assign(f.r, 0);
        if (fc.code) {
            std::vector<const uint8_t *> sp(f.k);
            for (uint32_t i = 0; i < f.k; i++) sp[i] = fc.src[i].data();
            fc.code->encode_all(sp, fc.ref_rep, f.E);
            std::fill(fc.ref_have.begin(), fc.ref_have.end(), 1);
        }
        if (opt.packets) {
            auto pit = opt.packets->real_rep.find(f.id);
            if (pit != opt.packets->real_rep.end()) fc.real_rep = pit->second;
            auto tit = opt.packets->tainted.find(f.id);
            if (tit != opt.packets->tainted.end()) fc.tainted = tit->second;
        }
        fc.ok = true;
    }

    // Codec 5: which repair symbol protects which sources is the implementation's choice, so the equations are read
    // off a probe encoder session fed with an identity payload, and then checked to BE a d x l product single-parity
    // code (C16 "structure"): two families of checks, each partitioning the sources, every row check meeting every
    // column check in exactly one source.
    std::shared_ptr<const BinCode> probe_2d(const Flow &f) {
        const int sid = -100 - f.id;
        void *h = nullptr;
        cur_op = cur_op < 0 ? 0 : cur_op;
        if (g_status) { g_status->ses_codec = C_2D; strncpy((char *)g_status->what, "probe-2d", sizeof(g_status->what) - 1); g_status->corrupt = 0; g_status->in_call = 1; }
        if (ad_create(&h, C_2D, R_ENC, sid) != 0 || !h) { if (g_status) g_status->in_call = 0; return nullptr; }
        ad_params p{f.k, f.r, (f.k + 7) / 8, 0, 0, 0};
        std::shared_ptr<BinCode> code;
        if (ad_set_params(h, C_2D, &p, 0, sid) == 0) {
            uint32_t E = p.E, n = f.k + f.r;
            std::vector<AppBuf> bufs(n);
            void **tab = (void **)malloc(sizeof(void *) * n);
            for (uint32_t i = 0; i < n; i++) {
                std::vector<uint8_t> c(E, 0);
                if (i < f.k) c[i / 8] = (uint8_t)(1u << (i % 8));
                bufs[i] = app_alloc(E, 0, c.data()); tab[i] = bufs[i].p;
            }
            bool ok = true;
            for (uint32_t j = 0; j < f.r && ok; j++) ok = ad_build(h, tab, f.k + j, sid) == 0;
            res.lib_calls += 2 + f.r;
            if (ok) {
                code = std::make_shared<BinCode>();
                code->k = f.k; code->r = f.r; code->rows.assign(f.r, {});
                for (uint32_t j = 0; j < f.r; j++) {
                    for (uint32_t i = 0; i < f.k; i++) if (bufs[f.k + j].p[i / 8] & (1u << (i % 8))) code->rows[j].push_back(i);
                    code->rows[j].push_back(f.k + j);
                }
                code->finish();
                std::string why = product_structure_defect(*code);
                if (!why.empty()) viol({"C16"}, "structure", "not-a-product-single-parity-code", why + " (k=" + std::to_string(f.k) + " r=" + std::to_string(f.r) + ")", nullptr);
                else count("2d_structure_verified");
            } else viol({"C16"}, "enc", "build-status:codec=2d", "probe encoder", nullptr);
            for (auto &b : bufs) app_free(b);
            free(tab);
        }
        ad_release(h, sid);
        if (g_status) g_status->in_call = 0;
        for (auto &le : ledger_live_of(sid)) viol({"C16"}, "leak", "site=" + le.site + ":codec=2d", "probe encoder", nullptr);
        return code;
    }

    static std::string product_structure_defect(const BinCode &c) {
        uint32_t k = c.k, r = c.r;
        for (uint32_t s = 0; s < k; s++) if (c.cols[s].size() != 2) return "source " + std::to_string(s) + " belongs to " + std::to_string(c.cols[s].size()) + " checks";
        auto srcs = [&](uint32_t j) { std::vector<uint32_t> v; for (uint32_t e : c.rows[j]) if (e < k) v.push_back(e); return v; };
        auto inter = [&](uint32_t a, uint32_t b) { auto x = srcs(a), y = srcs(b); size_t n = 0; for (uint32_t e : x) if (std::find(y.begin(), y.end(), e) != y.end()) n++; return n; };
        std::vector<int> cls(r, 0);
        for (uint32_t j = 1; j < r; j++) cls[j] = inter(0, j) > 0 ? 1 : 0;
        for (int which = 0; which < 2; which++) {
            std::vector<int> seen(k, 0);
            for (uint32_t j = 0; j < r; j++) if (cls[j] == which) for (uint32_t e : srcs(j)) seen[e]++;
            for (uint32_t s = 0; s < k; s++) if (seen[s] != 1) return "the check families do not each partition the sources (source " + std::to_string(s) + ")";
        }
        size_t na = 0, nb = 0;
        for (uint32_t j = 0; j < r; j++) (cls[j] ? nb : na)++;
        if (na * nb != k || na + nb != r) return "family sizes " + std::to_string(na) + " x " + std::to_string(nb) + " do not match k";
        for (uint32_t a = 0; a < r; a++) for (uint32_t b = a + 1; b < r; b++) {
            size_t n = inter(a, b);
            if (cls[a] == cls[b] && n != 0) return "two checks of one family share a source";
            if (cls[a] != cls[b] && n != 1) return "a row check and a column check share " + std::to_string(n) + " sources";
        }
        for (uint32_t j = 0; j < r; j++) { size_t reps = 0; for (uint32_t e : c.rows[j]) if (e >= k) reps++; if (reps != 1) return "check without its own repair symbol"; }
        return "";
    }

    const std::vector<uint8_t> &ref_symbol(FlowCtx &fc, uint32_t esi) {
        const Flow &f = *fc.f;
        if (esi < f.k) return fc.src[esi];
        uint32_t j = esi - f.k;
        if (!fc.ref_have[j]) {
            std::vector<const uint8_t *> sp(f.k);
            for (uint32_t i = 0; i < f.k; i++) sp[i] = fc.src[i].data();
            fc.ref_rep[j].assign(f.E, 0);
            rs_model(fc.family == 4 ? 4 : 8, (int)f.k, (int)(f.k + f.r)).encode(sp, (int)esi, fc.ref_rep[j].data(), f.E);
            fc.ref_have[j] = 1;
        }
        return fc.ref_rep[j];
    }

    // what a receiver of this flow gets on the wire for `esi`
    const std::vector<uint8_t> &wire_symbol(FlowCtx &fc, const Session &s, uint32_t esi, bool &from_real) {
        from_real = false;
        if (esi >= fc.f->k && s.tx == "real") {
            auto it = fc.real_rep.find(esi);
            if (it != fc.real_rep.end()) { from_real = true; return it->second; }
        }
        return ref_symbol(fc, esi);
    }

    // ------------------------------------------------------------ callbacks (seam E5)
    static void *src_cb_tramp(void *ctx, uint32_t size, uint32_t esi) {
        int keep = g_in_lib; g_in_lib = 0;
        Executor *ex = (Executor *)ctx;
        void *r = ex->on_src_cb(size, esi);
        g_in_lib = keep;
        return r;
    }
    void *on_src_cb(uint32_t size, uint32_t esi) {
        SesCtx *sc = cb_target;
        if (!sc) return nullptr;
        sc->cb_calls++;
        CbEvent ev{esi, size, nullptr, false, false};
        if (esi < sc->k) { ev.already_received = sc->got.size() > esi && sc->got[esi]; ev.already_available = sc->avail.size() > esi && sc->avail[esi]; }
        bool give = false;
        const std::string &pol = sc->s->cb;
        if (pol == "buf") give = true;
        else if (pol == "null") give = false;
        else give = (mix64(sc->s->cbseed, ((uint64_t)esi << 20) ^ sc->cb_calls) & 1) != 0;
        if (give) {
            // a pool buffer of exactly the size the library asked for (bounded, in case it asks for nonsense)
            size_t len = size <= (1u << 22) ? size : (1u << 22);
            AppBuf b = app_alloc(len, sc->s->align, nullptr);
            sc->cb_bufs.push_back(b);
            ev.ret = b.p;
            count("cb_returned_buffer");
        } else count("cb_returned_null");
        sc->cbs.push_back(ev);
        return ev.ret;
    }

    // ------------------------------------------------------------ helpers
    SesCtx *get_ses(int id) {
        auto it = ses.find(id);
        if (it != ses.end()) return &it->second;
        const Session *s = plan.session(id);
        if (!s) return nullptr;
        SesCtx &sc = ses[id];
        sc.s = s; sc.fc = &flow_ctx(s->flow);
        return &sc;
    }

    void trace_step(SesCtx &sc, const char *kind, int64_t esi, int st, int complete, const Hash64 &extra) {
        Hash64 h; h.str(kind); h.u64((uint64_t)esi); h.u64((uint64_t)st); h.u64((uint64_t)complete); h.u64(extra.h);
        sc.trace.push_back(h.h); sc.trace_ops.push_back(cur_op); sc.trace_kind.push_back(kind);
        log.u64((uint64_t)sc.s->id); log.u64(h.h);
        inter.u64((uint64_t)sc.s->id); inter.str(kind);
        if (opt.trace) fprintf(stderr, "[op %d] s%d %-8s esi=%lld -> st=%d complete=%d avail=%u obs=%016llx\n", cur_op, sc.s->id, kind, (long long)esi, st, complete, sc.navail, (unsigned long long)h.h);
    }

    bool is_rs(const SesCtx &sc) const { return sc.s->codec == C_RS8 || sc.s->codec == C_RS2M; }
    bool judged(const SesCtx &sc) const {   // may decoder-side data oracles be applied to this session?
        return sc.fc->ok && !(sc.s->tx == "real" && sc.fc->tainted);
    }
    const char *cn(const SesCtx &sc) const { return codec_name(sc.s->codec, sc.s->m); }

    // ------------------------------------------------------------ O-MEM
    void check_app_memory(SesCtx &sc, bool force) {
        // small blocks: every buffer after every call; otherwise a rotating window of 48 buffers per call, everything at
        // finish / release (force)
        bool all = force || (uint64_t)sc.delivered.size() * sc.E <= 8192;
        size_t nd = sc.delivered.size();
        size_t cnt_d = all ? nd : std::min<size_t>(48, nd);
        for (size_t q = 0; q < cnt_d; q++) {
            size_t i = all ? q : (sc.mem_cursor++ % nd);
            AppBuf &b = sc.delivered[i];
            if (b.p && checksum(b.p, b.len) != b.sum) {
                viol({"C07"}, "mem", std::string("received-symbol-modified:codec=") + cn(sc), "esi " + std::to_string(sc.delivered_esi[i]), &sc);
                b.sum = checksum(b.p, b.len);
            }
        }
        bool alls = force || (uint64_t)sc.enc_src.size() * sc.E <= 8192;
        size_t ns = sc.enc_src.size();
        size_t cnt_s = alls ? ns : std::min<size_t>(48, ns);
        for (size_t q = 0; q < cnt_s; q++) {
            size_t i = alls ? q : (sc.mem_cursor++ % ns);
            AppBuf &b = sc.enc_src[i];
            if (b.p && checksum(b.p, b.len) != b.sum) {
                viol({"C07", "C06"}, "mem", std::string("encoder-source-modified:codec=") + cn(sc), "esi " + std::to_string(i), &sc);
                b.sum = checksum(b.p, b.len);
            }
        }
        for (auto &ev : ledger_take_events())
            viol({"C07", "C08"}, "mem", ev.kind + ":site=" + ev.site, "session " + std::to_string(ev.ses), &sc);
    }

    // ------------------------------------------------------------ queries + decoder oracles after every call
    void observe_decoder(SesCtx &sc, const char *kind, int64_t esi, int st, bool was_submission) {
        sc.calls++;
        const bool ldpc = sc.s->codec == C_LDPC, twod = sc.s->codec == C_2D, rs = is_rs(sc);
        const char *pdata = twod ? "C16" : "C01";
        // large blocks: the O(k) table scan is done every 64th call and at the calls that can change many symbols
        if (sc.k > 2000 && (sc.calls & 63) && !strcmp(kind, "DELIVER")) { observe_light(sc, kind, esi, st, was_submission); return; }
        status(&sc, "query", false);
        int complete = ad_is_complete(sc.h, sc.s->id);
        void **tab = (void **)malloc(sizeof(void *) * (sc.k ? sc.k : 1));   // exact-size heap table of k pointers
        // the table is "filled by the library": it arrives holding stale, non-NULL garbage (a receiver that reuses one table
        // for consecutive blocks), and every one of the k entries must have been written when the call returns OK
        void *const stale = (void *)(uintptr_t)0x5a5a5a5a5a5a5a50ULL;
        for (uint32_t i = 0; i < sc.k; i++) tab[i] = stale;
        int tst = ad_get_tab(sc.h, tab, sc.s->id);
        status_done();
        res.lib_calls += 2;
        if (tst == 0) {
            for (uint32_t i = 0; i < sc.k; i++)
                if (tab[i] == stale) {
                    std::vector<const char *> props{twod ? "C16" : "C10"};
                    if (rs) props.push_back("C02");
                    viol(props, "status", std::string("source-table-entry-not-written:codec=") + cn(sc), "entry " + std::to_string(i), &sc);
                    tab[i] = nullptr;
                }
        } else for (uint32_t i = 0; i < sc.k; i++) tab[i] = nullptr;
        Hash64 extra;
        uint32_t navail = 0;
        std::vector<uint32_t> newly;
        if (tst == 0) {
            for (uint32_t i = 0; i < sc.k; i++) {
                if (tab[i]) {
                    navail++;
                    if (!sc.avail[i] || sc.last_ptr[i] != tab[i]) newly.push_back(i);
                } else if (sc.avail[i]) {
                    viol({twod ? "C16" : "C10"}, "status", std::string("available-symbol-vanished:codec=") + cn(sc), "esi " + std::to_string(i), &sc);
                }
            }
        } else {
            // RS codecs refuse the table until decoding is complete: "nothing available yet" (DESIGN H3)
            if (!(rs && !complete))
                viol({twod ? "C16" : "C10"}, "status", std::string("get-source-symbols-tab-status:codec=") + cn(sc), "status " + std::to_string(tst), &sc);
        }
        // O-DATA
        if (tst == 0) {
            status(&sc, "odata-read", false);
            for (uint32_t i : newly) {
                bool ok = true;
                if (judged(sc)) ok = memcmp(tab[i], sc.fc->src[i].data(), sc.E) == 0;
                Hash64 ch; ch.bytes(tab[i], sc.E); extra.u64(i); extra.u64(ch.h);
                if (!ok) {
                    std::vector<const char *> props{pdata};
                    if (rs) props.push_back("C02");                              // "...and returns the original k source symbols"
                    if (ldpc && sc.finish_called) props.push_back("C03");        // "recovers all k source symbols"
                    viol(props, "data", std::string("wrong-source-symbol:codec=") + cn(sc), "esi " + std::to_string(i) + " after " + kind, &sc);
                }
                if (!sc.got[i] && !sc.avail[i]) { sc.decoded_cnt++; count("source_symbols_decoded"); }
            }
            status_done();
        }
        if (complete && tst == 0 && navail != sc.k)
            viol({pdata, twod ? "C16" : "C10"}, "status", std::string("complete-but-missing:codec=") + cn(sc), std::to_string(navail) + "/" + std::to_string(sc.k), &sc);
        if (!twod) {
            if (!complete && tst == 0 && navail == sc.k && sc.k > 0)
                viol({"C10"}, "status", std::string("all-available-but-not-complete:codec=") + cn(sc), kind, &sc);
            if (sc.complete_seen && !complete)
                viol({"C10"}, "status", std::string("complete-reverted:codec=") + cn(sc), kind, &sc);
            if (was_submission && st != 0)
                viol({"C10"}, "status", std::string(kind) + "-status:codec=" + cn(sc), "status " + std::to_string(st), &sc);
            // pointer identity
            if (tst == 0)
                for (uint32_t i = 0; i < sc.k; i++)
                    if (tab[i] && sc.first_ptr[i] && tab[i] != sc.first_ptr[i])
                        viol({"C10"}, "status", std::string("pointer-identity:codec=") + cn(sc), "esi " + std::to_string(i), &sc);
        }
        // O-CB
        check_callbacks(sc, kind, st, tab, tst, newly);
        // update availability state
        if (tst == 0) {
            for (uint32_t i = 0; i < sc.k; i++) {
                if (tab[i] && !sc.avail[i]) {
                    sc.avail[i] = 1;
                    // who owns it? neither delivered by the application nor a callback buffer => library allocation
                    if (!sc.got[i] || tab[i] != sc.first_ptr[i]) {
                        bool is_cb = false;
                        for (auto &b : sc.cb_bufs) if (b.p == tab[i]) { is_cb = true; break; }
                        if (!is_cb && !is_app_delivered(sc, tab[i])) {
                            if (ledger_is_lib_alloc(tab[i])) { ledger_handover(tab[i]); sc.lib_owned_src.push_back(tab[i]); }
                        }
                    }
                }
                sc.last_ptr[i] = tab[i];
            }
            sc.navail = navail;
        }
        // O-PEEL (C04): stream submission, no finish
        if ((ldpc || twod) && sc.has_peel && !sc.finish_called && judged(sc) && tst == 0 && !sc.avail_done) {
            bool model_complete = sc.peel.all_sources();
            for (uint32_t i = 0; i < sc.k; i++) {
                bool m = sc.peel.known[i] != 0, l = tab[i] != nullptr;
                if (m != l) {
                    if (ldpc) viol(sc.s->tx == "ref" ? std::vector<const char *>{"C04", "C05"} : std::vector<const char *>{"C04"}, "peel", m ? "missing-peelable-symbol" : "symbol-beyond-closure", "esi " + std::to_string(i) + " after " + kind + " " + std::to_string(esi), &sc);
                    else count("2d_stream_differs_from_peeling");
                    break;
                }
            }
            if (ldpc && (model_complete != (complete != 0)))
                viol({"C04"}, "peel", "complete-flag", std::string("model ") + (model_complete ? "1" : "0") + " lib " + std::to_string(complete), &sc);
        }
        // O-MDS (C02)
        if (rs && judged(sc)) {
            bool expect = sc.distinct >= sc.k;
            bool decoding_attempted = !sc.avail_done || sc.finish_called;   // batch: nothing is decoded before finish
            if (decoding_attempted) {
                if (expect && !complete) viol({"C02"}, "mds", std::string("not-complete-with-k:codec=") + cn(sc), std::to_string(sc.distinct) + " distinct of k=" + std::to_string(sc.k) + " after " + kind, &sc);
            }
            if (!expect && complete) viol({"C02"}, "mds", std::string("complete-with-fewer-than-k:codec=") + cn(sc), std::to_string(sc.distinct), &sc);
        }
        if (complete) { if (!sc.complete_seen) count("sessions_completed"); sc.complete_seen = true; }
        extra.u64(navail);
        for (size_t i = sc.cbs_checked; i < sc.cbs.size(); i++) { extra.u64(sc.cbs[i].esi); extra.u64(sc.cbs[i].size); extra.u64(sc.cbs[i].ret ? 1 : 0); }
        sc.cbs_checked = sc.cbs.size();
        trace_step(sc, kind, esi, st, complete, extra);
        free(tab);
        check_app_memory(sc, false);
    }

    void observe_light(SesCtx &sc, const char *kind, int64_t esi, int st, bool was_submission) {
        status(&sc, "query", false);
        int complete = ad_is_complete(sc.h, sc.s->id);
        status_done(); res.lib_calls++;
        if (sc.s->codec != C_2D) {
            if (sc.complete_seen && !complete) viol({"C10"}, "status", std::string("complete-reverted:codec=") + cn(sc), kind, &sc);
            if (was_submission && st != 0) viol({"C10"}, "status", std::string(kind) + "-status:codec=" + cn(sc), "status " + std::to_string(st), &sc);
        }
        if (sc.s->codec == C_LDPC && sc.has_peel && !sc.finish_called && judged(sc) && !sc.avail_done && (sc.peel.all_sources() != (complete != 0)))
            viol({"C04"}, "peel", "complete-flag", std::string("model ") + (sc.peel.all_sources() ? "1" : "0") + " lib " + std::to_string(complete), &sc);
        if (is_rs(sc) && judged(sc) && ((sc.distinct >= sc.k) != (complete != 0)) && (!sc.avail_done || sc.finish_called))
            viol({"C02"}, "mds", std::string("completion-differs-from-k-distinct:codec=") + cn(sc), std::to_string(sc.distinct), &sc);
        if (complete) sc.complete_seen = true;
        Hash64 extra; extra.u64(0x11);
        trace_step(sc, kind, esi, st, complete, extra);
    }

    bool is_app_delivered(SesCtx &sc, void *p) {
        for (auto &b : sc.delivered) if (b.p == p) return true;
        return false;
    }

    void check_callbacks(SesCtx &sc, const char *kind, int st, void **tab, int tst, const std::vector<uint32_t> &newly) {
        if (sc.s->codec == C_2D) return;
        const bool registered = sc.cb_set;
        for (size_t i = sc.cbs_checked; i < sc.cbs.size(); i++) {
            CbEvent &ev = sc.cbs[i];
            if (ev.esi >= sc.k || ev.size != sc.E)
                viol({"C11"}, "cb", std::string("bad-arguments:codec=") + cn(sc), "esi " + std::to_string(ev.esi) + " size " + std::to_string(ev.size), &sc);
            else {
                if (ev.already_received) viol({"C11"}, "cb", std::string("callback-for-received-symbol:codec=") + cn(sc), "esi " + std::to_string(ev.esi), &sc);
                sc.cb_count[ev.esi]++;
                if (sc.cb_count[ev.esi] > 1) viol({"C11"}, "cb", std::string("duplicate-callback:codec=") + cn(sc), "esi " + std::to_string(ev.esi), &sc);
                sc.cb_ret_for[ev.esi] = ev.ret;
            }
        }
        if (!registered) return;
        bool any_null = false;
        for (size_t i = sc.cbs_checked; i < sc.cbs.size(); i++) if (!sc.cbs[i].ret) any_null = true;
        if (st >= 2 && any_null)
            viol({"C11"}, "cb", std::string("null-return-treated-as-error:codec=") + cn(sc) + ":call=" + kind, "status " + std::to_string(st), &sc);
        if (tst != 0) return;
        for (size_t i = sc.cbs_checked; i < sc.cbs.size(); i++) {
            CbEvent &ev = sc.cbs[i];
            if (ev.esi < sc.k && !tab[ev.esi])
                viol({"C11"}, "cb", std::string("callback-invoked-but-symbol-not-stored:codec=") + cn(sc) + ":call=" + kind + (ev.ret ? ":ret=buffer" : ":ret=null"), "esi " + std::to_string(ev.esi), &sc);
        }
        for (uint32_t i : newly) {
            if (sc.got[i] && tab[i] == sc.first_ptr[i]) continue;      // received, not decoded
            if (sc.avail[i]) continue;                                 // pointer changed only
            if (sc.got[i]) continue;
            if (sc.cb_count[i] == 0) {
                viol({"C11"}, "cb", std::string("decoded-without-callback:codec=") + cn(sc) + ":call=" + kind, "esi " + std::to_string(i), &sc);
            } else if (sc.cb_ret_for[i]) {
                if (tab[i] != sc.cb_ret_for[i]) viol({"C11"}, "cb", std::string("callback-buffer-not-used:codec=") + cn(sc), "esi " + std::to_string(i), &sc);
            } else {
                if (!ledger_is_lib_alloc(tab[i])) viol({"C11"}, "cb", std::string("null-return-not-library-buffer:codec=") + cn(sc), "esi " + std::to_string(i), &sc);
            }
        }
    }

    // ------------------------------------------------------------ ops
    void do_create(SesCtx &sc) {
        if (sc.created) return;
        status(&sc, "create", false);
        int st = ad_create(&sc.h, sc.s->codec, sc.s->both ? 3 : sc.s->role, sc.s->id);
        if (sc.s->both) count("sessions_created_as_encoder_and_decoder");
        status_done(); res.lib_calls++;
        Hash64 x; trace_step(sc, "CREATE", -1, st, 0, x);
        if (st != 0 || !sc.h) { viol({"C10"}, "status", std::string("create-failed:codec=") + cn(sc), "status " + std::to_string(st), &sc); sc.dead = true; return; }
        sc.created = true;
        count(std::string("sessions_created:") + cn(sc));
    }

    // codec 2 only: the field size may be preset through the control-parameter interface before of_set_fec_parameters
    // (eperftool and tests/code_params_test.c do this); the configuration call still decides
    void do_ctrlset(SesCtx &sc, const Op &op) {
        if (!sc.created || sc.setp_done || sc.released || sc.s->codec != C_RS2M || op.esi < 0) return;
        status(&sc, "ctrlset", false);
        int st = ad_set_field_size(sc.h, (uint32_t)op.esi, sc.s->id);
        status_done(); res.lib_calls++;
        Hash64 x; x.u64((uint64_t)op.esi);
        trace_step(sc, "CTRLSET", op.esi, st, 0, x);
        count(op.esi == sc.s->m ? "field_size_preset_same" : "field_size_preset_other");
    }

    void do_setp(SesCtx &sc) {
        if (!sc.created || sc.setp_done || sc.released) return;
        const Flow &f = *sc.fc->f;
        ad_params p{f.k, f.r, f.E, (uint32_t)sc.s->m, f.N1, f.pseed};
        bool corrupt = !f.oti.empty();
        uint32_t adv_k = 0, adv_n = 0;
        if (sc.s->codec == C_RS8 || sc.s->codec == C_LDPC) {
            status(&sc, "ctrl", false);
            uint32_t vk = 0, vn = 0;
            if (ad_ctrl_u32(sc.h, 1, &vk, sc.s->id) == 0 && ad_ctrl_u32(sc.h, 2, &vn, sc.s->id) == 0) { adv_k = vk; adv_n = vn; }
            status_done(); res.lib_calls += 2;
            if ((adv_k && adv_k != (sc.s->codec == C_RS8 ? 255u : 50000u)) || (adv_n && adv_n != (sc.s->codec == C_RS8 ? 255u : 50000u))) count("advertised_limits_differ_from_default");
        }
        Domain d = in_domain(sc.s->codec, sc.s->m, f.k, f.r, f.E, f.N1, f.pseed, adv_k, adv_n);
        status(&sc, "setp", corrupt || !d.inside);
        cb_target = &sc;            // an even-N1 LDPC decoder may already decode (and call back) while it is being configured
        int st = ad_set_params(sc.h, sc.s->codec, &p, 0, sc.s->id);
        cb_target = nullptr;
        status_done(); res.lib_calls++;
        sc.setp_done = true;
        Hash64 x; x.u64(f.k); x.u64(f.r); x.u64(f.E);
        if (sc.s->codec != C_2D) {
            if (d.inside && st != 0)
                viol({"C09"}, "valid", std::string("rejected-inside-domain:codec=") + cn(sc), "k=" + std::to_string(f.k) + " r=" + std::to_string(f.r) + " E=" + std::to_string(f.E) + " N1=" + std::to_string(f.N1) + " seed=" + std::to_string(f.pseed), &sc);
            if (!d.inside && st == 0)
                viol({"C09"}, "valid", std::string("accepted-outside-domain:") + d.why + ":codec=" + cn(sc), "k=" + std::to_string(f.k) + " r=" + std::to_string(f.r) + " E=" + std::to_string(f.E) + " N1=" + std::to_string(f.N1) + " seed=" + std::to_string(f.pseed), &sc);
            if (!d.inside) count("oti_outside_domain:" + d.why);
            if (!d.inside && st != 0) count("oti_rejected");
        }
        if (corrupt) count("oti_corrupted:" + f.oti);
        trace_step(sc, "SETP", -1, st, 0, x);
        if (st == 0 && !d.inside && sc.s->codec == C_LDPC && sc.s->role == R_ENC) nullsym_selfcheck(sc);
        if (st == 0 && d.inside) materialise(*sc.fc);
        if (st != 0 || !d.inside || !sc.fc->ok) { if (st == 0 && d.inside) count("accepted_not_materialised"); return; }   // unusable from here: only RELEASE applies
        sc.configured = true;
        sc.k = f.k; sc.r = f.r; sc.n = f.k + f.r; sc.E = f.E;
        if (sc.s->role == R_ENC) {
            sc.enc_tab = (void **)malloc(sizeof(void *) * sc.n);
            for (uint32_t i = 0; i < sc.n; i++) sc.enc_tab[i] = nullptr;
            sc.enc_src.resize(sc.k); sc.built.assign(sc.n, 0);
            for (uint32_t i = 0; i < sc.k; i++) { sc.enc_src[i] = app_alloc(sc.E, sc.s->align, sc.fc->src[i].data()); sc.enc_tab[i] = sc.enc_src[i].p; ledger_protect(sc.enc_src[i].base, sc.E, sc.s->id); }
        } else {
            sc.got.assign(sc.n, 0); sc.first_ptr.assign(sc.k, nullptr); sc.store_idx.assign(sc.n, -1);
            sc.avail.assign(sc.k, 0); sc.last_ptr.assign(sc.k, nullptr); sc.cb_count.assign(sc.k, 0); sc.cb_ret_for.assign(sc.k, nullptr);
            if (sc.fc->code && (sc.s->codec == C_LDPC || sc.s->codec == C_2D)) { sc.peel.init(sc.fc->code.get()); sc.has_peel = true; }
        }
        if (sc.s->codec == C_LDPC) {
            int ln = 0;
            status(&sc, "ctrl", false);
            int cst = ad_ctrl_lastnull(sc.h, &ln, sc.s->id);
            status_done(); res.lib_calls++;
            if (cst == 0) {
                sc.lastnull = ln;
                check_lastnull_flag(sc, ln);
                // H2: the decoder's implicit symbol counts as received only if the claim is *true* for this matrix (C15);
                // a decoder that injects a zero symbol the code does not guarantee has received nothing
                sc.implicit_last = sc.s->role == R_DEC && ln && sc.fc->code->all_source_cols_even;
                if (sc.implicit_last && sc.has_peel) { sc.peel.add(sc.n - 1); count("decoder_implicit_null_symbol"); }
            }
            check_pchk_whitebox(sc);
            if (sc.fc->code->extra_entries) count("h5170_extra_entries_branch");
            if (sc.fc->code->no_choice_left) count("h5170_no_choice_left_branch");
            if (sc.n > 1024 / 4) count("ldpc_large_matrix");
        }
        if (sc.s->role == R_DEC) observe_decoder(sc, "SETP+", -1, 0, false);
    }

    // C15 speaks about every *configured* session. An LDPC encoder that was accepted although its parameters are outside
    // the advertised domain (that acceptance itself is C09's business) has no RFC 5170 model to be compared with, but the
    // claim can still be tested against the symbol the encoder really produces for this run's payload.
    void nullsym_selfcheck(SesCtx &sc) {
        const Flow &f = *sc.fc->f;
        if (!materialisable(f) || f.k > 4096 || f.r > 4096 || f.r == 0 || f.k == 0) return;
        int ln = 0;
        status(&sc, "ctrl", true);
        int cst = ad_ctrl_lastnull(sc.h, &ln, sc.s->id);
        status_done(); res.lib_calls++;
        if (cst != 0 || !ln) return;
        count("lastnull_claimed_outside_domain");
        FlowCtx tmp; tmp.f = &f; gen_payload(tmp);
        uint32_t n = f.k + f.r;
        std::vector<AppBuf> bufs(n);
        void **tab = (void **)malloc(sizeof(void *) * n);
        for (uint32_t i = 0; i < n; i++) { bufs[i] = app_alloc(f.E, 0, i < f.k ? tmp.src[i].data() : nullptr); tab[i] = bufs[i].p; }
        bool ok = true;
        status(&sc, "build", true);
        for (uint32_t j = f.k; j < n && ok; j++) { ok = ad_build(sc.h, tab, j, sc.s->id) == 0; res.lib_calls++; }
        status_done();
        if (ok) {
            bool zero = true;
            for (uint32_t b = 0; b < f.E; b++) if (bufs[n - 1].p[b]) { zero = false; break; }
            if (!zero && f.payload != "zero") viol({"C15"}, "nullsym", "claimed-null-but-last-repair-nonzero", "configuration outside the advertised domain but accepted: k=" + std::to_string(f.k) + " r=" + std::to_string(f.r) + " N1=" + std::to_string(f.N1), &sc);
        }
        for (auto &b : bufs) app_free(b);
        free(tab);
    }

    // the answer is a function of (k, n, N1, seed): it must not change during the life of a session
    void requery_lastnull(SesCtx &sc, const char *when) {
        if (sc.s->codec != C_LDPC || !sc.configured || sc.released || sc.lastnull < 0) return;
        int ln = 0;
        status(&sc, "ctrl", false);
        int cst = ad_ctrl_lastnull(sc.h, &ln, sc.s->id);
        status_done(); res.lib_calls++;
        count("lastnull_requeried");
        if (cst != 0) viol({"C15"}, "nullsym", std::string("flag-query-fails:") + when, "status " + std::to_string(cst), &sc);
        else if (ln != sc.lastnull) viol({"C15"}, "nullsym", std::string("flag-changed-during-session:") + when, "was " + std::to_string(sc.lastnull) + " now " + std::to_string(ln), &sc);
    }

    void check_lastnull_flag(SesCtx &sc, int ln) {
        FlowCtx &fc = *sc.fc;
        if (ln) {
            count("lastnull_claimed");
            if (!fc.code->all_source_cols_even)
                viol({"C15"}, "nullsym", "claimed-but-source-column-of-odd-weight", "N1=" + std::to_string(fc.f->N1), &sc);
        } else if (fc.code->all_source_cols_even) count("lastnull_not_claimed_though_even");
        int &slot = sc.s->role == R_ENC ? fc.lastnull_enc : fc.lastnull_dec;
        int other = sc.s->role == R_ENC ? fc.lastnull_dec : fc.lastnull_enc;
        if (slot >= 0 && slot != ln) viol({"C15"}, "nullsym", "same-role-sessions-disagree", "", &sc);
        slot = ln;
        if (other >= 0 && other != ln) viol({"C15"}, "nullsym", "encoder-decoder-disagree", "enc/dec " + std::to_string(fc.lastnull_enc) + "/" + std::to_string(fc.lastnull_dec), &sc);
    }

    struct WalkCtx { std::vector<std::vector<uint32_t>> rows; uint32_t r, n; bool bad = false; };
    static void walk_fn(void *ctx, uint32_t row, uint32_t esi) {
        WalkCtx *w = (WalkCtx *)ctx;
        if (row >= w->r || esi >= w->n) { w->bad = true; return; }
        w->rows[row].push_back(esi);
    }
    void check_pchk_whitebox(SesCtx &sc) {
        WalkCtx w; w.r = sc.r; w.n = sc.n; w.rows.assign(sc.r, {});
        if (shim_pchk_walk(sc.h, walk_fn, &w) != 0) return;
        count("pchk_whitebox_compared");
        const BinCode &c = *sc.fc->code;
        bool enc = sc.s->role == R_ENC;
        // decoder sessions may already have consumed the entries of symbols they know (implicit null symbol and
        // whatever peeling derived from it)
        std::vector<uint8_t> known(sc.n, 0);
        if (!enc && sc.has_peel) known = sc.peel.known;
        if (!enc && sc.lastnull == 1) { Peel p; p.init(&c); p.add(sc.n - 1); known = p.known; }      // what the library believes it knows
        std::string bad;
        if (w.bad) bad = "entry out of range";
        for (uint32_t j = 0; j < sc.r && bad.empty(); j++) {
            std::vector<uint32_t> lib = w.rows[j]; std::sort(lib.begin(), lib.end());
            const std::vector<uint32_t> &mod = c.rows[j];
            size_t a = 0, b = 0;
            while (a < lib.size() || b < mod.size()) {
                if (a < lib.size() && b < mod.size() && lib[a] == mod[b]) { a++; b++; continue; }
                if (b < mod.size() && (a >= lib.size() || mod[b] < lib[a])) {
                    if (!known[mod[b]]) { bad = "row " + std::to_string(j) + " lacks esi " + std::to_string(mod[b]); break; }
                    b++; continue;
                }
                bad = "row " + std::to_string(j) + " has extra esi " + std::to_string(lib[a]); break;
            }
        }
        if (!bad.empty()) viol({"C05"}, "h", std::string("matrix-differs-from-rfc5170:") + (enc ? "encoder" : "decoder"), bad + " (k=" + std::to_string(sc.k) + " r=" + std::to_string(sc.r) + " N1=" + std::to_string(sc.fc->f->N1) + " seed=" + std::to_string(sc.fc->f->pseed) + ")", &sc);
        int lib_extra = shim_extra_entries(sc.h);
        if (lib_extra >= 0 && (lib_extra != 0) != c.extra_entries) viol({"C05", "C15"}, "h", "extra-entries-marker-differs", "", &sc);
    }

    void do_setcb(SesCtx &sc) {
        // after of_set_fec_parameters (the order of eperftool and the examples) or before it (nothing in the header forbids
        // it); in both cases before any symbol (DESIGN H1)
        bool before_setp = sc.created && !sc.setp_done;
        if (!(sc.configured || before_setp) || sc.released || sc.cb_set || sc.s->role != R_DEC || sc.s->cb == "none") return;
        if (sc.distinct > 0 || sc.avail_done || sc.finish_called) return;
        if (before_setp) count("callback_registered_before_parameters");
        status(&sc, "setcb", false);
        int st = ad_set_cb(sc.h, &Executor::src_cb_tramp, nullptr, this, sc.s->id);
        status_done(); res.lib_calls++;
        Hash64 x; trace_step(sc, "SETCB", -1, st, 0, x);
        if (st == 0) { sc.cb_set = true; count("callback_registered"); }
        else viol({"C11"}, "cb", std::string("set-callback-status:codec=") + cn(sc), std::to_string(st), &sc);
    }

    void do_build(SesCtx &sc, const Op &op) {
        if (!sc.configured || sc.released || sc.s->role != R_ENC || op.esi < (int64_t)sc.k || op.esi >= (int64_t)sc.n) return;
        uint32_t esi = (uint32_t)op.esi;
        if (sc.built[esi]) return;
        const bool bin = sc.s->codec == C_LDPC || sc.s->codec == C_2D;
        if (sc.s->codec == C_LDPC && esi > sc.k && !sc.built[esi - 1]) return;      // repair i+1 needs repair i
        bool null_slot = op.arg == "null";
        const char *pe = sc.s->codec == C_2D ? "C16" : "C06";
        AppBuf own;
        if (!null_slot) { own = app_alloc(sc.E, sc.s->align, nullptr); sc.enc_tab[esi] = own.p; sc.enc_own.push_back(own); }
        else { sc.enc_tab[esi] = nullptr; count("build_null_slot"); }
        std::vector<void *> before(sc.enc_tab, sc.enc_tab + sc.n);
        status(&sc, null_slot ? "build-null-slot" : "build", false);
        cb_target = nullptr;
        int st = ad_build(sc.h, sc.enc_tab, esi, sc.s->id);
        status_done(); res.lib_calls++; sc.calls++;
        Hash64 x;
        for (uint32_t i = 0; i < sc.n; i++)
            if (i != esi && sc.enc_tab[i] != before[i]) { viol({"C07", pe}, "mem", std::string("encoding-table-modified:codec=") + cn(sc), "entry " + std::to_string(i), &sc); sc.enc_tab[i] = before[i]; }
        if (st != 0) {
            viol({pe}, "enc", std::string("build-status:codec=") + cn(sc), "status " + std::to_string(st) + " esi " + std::to_string(esi), &sc);
            trace_step(sc, "BUILD", esi, st, 0, x);
            if (null_slot) sc.enc_tab[esi] = nullptr;
            return;
        }
        void *out = sc.enc_tab[esi];
        if (!out) { viol({pe}, "enc", std::string("null-slot-not-allocated:codec=") + cn(sc), "", &sc); trace_step(sc, "BUILD", esi, st, 0, x); return; }
        if (null_slot) {
            if (ledger_is_lib_alloc(out)) { ledger_handover(out); sc.enc_lib.push_back(out); }
            else viol({pe}, "enc", std::string("null-slot-not-library-buffer:codec=") + cn(sc), "", &sc);
        } else if (out != before[esi]) viol({pe}, "enc", std::string("own-slot-replaced:codec=") + cn(sc), "", &sc);
        status(&sc, "oenc-read", false);
        const std::vector<uint8_t> &ref = ref_symbol(*sc.fc, esi);
        bool same = memcmp(out, ref.data(), sc.E) == 0;
        Hash64 ch; ch.bytes(out, sc.E); x.u64(ch.h);
        status_done();
        sc.built[esi] = 1;
        count(std::string("repair_symbols_built:") + cn(sc));
        if (!same) {
            std::vector<const char *> props{pe};
            if (sc.s->codec == C_LDPC) props.push_back("C05");
            viol(props, "enc", std::string("repair-differs-from-reference:codec=") + cn(sc), "esi " + std::to_string(esi) + " k=" + std::to_string(sc.k) + " n=" + std::to_string(sc.n), &sc);
            if (sc.s->tag != "probe") sc.fc->tainted = true;
        }
        if (sc.s->tag == "flow") {
            sc.fc->real_rep[esi].assign((uint8_t *)out, (uint8_t *)out + sc.E);
            if (capture) { capture->real_rep[sc.s->flow][esi] = sc.fc->real_rep[esi]; capture->tainted[sc.s->flow] = sc.fc->tainted; }
        }
        // C15: the symbol the encoder claims to be null
        if (sc.s->codec == C_LDPC && esi == sc.n - 1 && sc.lastnull == 1) {
            bool zero = true;
            for (uint32_t b = 0; b < sc.E; b++) if (((uint8_t *)out)[b]) { zero = false; break; }
            count("lastnull_symbol_built");
            if (!zero) viol({"C15"}, "nullsym", "claimed-null-but-last-repair-nonzero", "payload " + sc.fc->f->payload, &sc);
        }
        (void)bin;
        trace_step(sc, "BUILD", esi, st, 0, x);
        check_app_memory(sc, false);
    }

    void do_ctrl(SesCtx &sc) {
        if (!sc.configured || sc.released) return;
        uint32_t mk = 0, mn = 0;
        status(&sc, "ctrl", false);
        int s1 = ad_ctrl_u32(sc.h, 1, &mk, sc.s->id), s2 = ad_ctrl_u32(sc.h, 2, &mn, sc.s->id);
        status_done(); res.lib_calls += 2;
        Hash64 x; x.u64(mk); x.u64(mn);
        trace_step(sc, "CTRL", -1, s1 * 4 + s2, 0, x);
        count("ctrl_queries");
    }

    void do_deliver(SesCtx &sc, const Op &op) {
        if (!sc.configured || sc.released || sc.s->role != R_DEC || sc.avail_done) return;
        if (sc.finalised) return;
        if (op.esi < 0 || op.esi >= (int64_t)sc.n) return;
        uint32_t esi = (uint32_t)op.esi;
        bool from_real = false;
        const std::vector<uint8_t> &content = wire_symbol(*sc.fc, *sc.s, esi, from_real);
        AppBuf b = app_alloc(sc.E, sc.s->align, content.data());
        sc.delivered.push_back(b); sc.delivered_esi.push_back(esi);
        ledger_protect(b.base, sc.E, sc.s->id);
        bool dup = sc.got[esi] != 0;
        if (dup) count("duplicate_deliveries"); else count("deliveries");
        if (sc.complete_seen) count("deliveries_after_completion");
        if (sc.finish_called) count("deliveries_after_finish");
        if (esi < sc.k && !sc.got[esi] && !sc.avail[esi]) {
            // "submitted while still unknown": for large blocks avail[] is only refreshed every 64th call, so the
            // pointer-identity obligation is recorded only when the symbol cannot have been decoded yet
            bool unknown = true;
            if (sc.k > 2000) unknown = sc.has_peel ? !sc.peel.known[esi] : !sc.complete_seen;
            if (unknown) sc.first_ptr[esi] = b.p;
        }
        status(&sc, "decode", false);
        cb_target = &sc;
        int st = ad_decode(sc.h, b.p, esi, sc.s->id);
        cb_target = nullptr;
        status_done(); res.lib_calls++;
        if (!sc.got[esi]) { sc.got[esi] = 1; sc.distinct++; sc.order_hash.u64(esi); }
        if (sc.has_peel) sc.peel.add(esi);
        observe_decoder(sc, "DELIVER", esi, st, true);
    }

    void do_store(SesCtx &sc, const Op &op) {
        if (!sc.configured || sc.released || sc.s->role != R_DEC || sc.avail_done || sc.finalised) return;
        if (sc.distinct > 0 && sc.store_count == 0) return;     // the two submission APIs are exclusive
        if (op.esi < 0 || op.esi >= (int64_t)sc.n) return;
        uint32_t esi = (uint32_t)op.esi;
        if (sc.store_idx[esi] >= 0) { count("duplicate_deliveries"); return; }     // the application keeps the first copy
        bool from_real = false;
        const std::vector<uint8_t> &content = wire_symbol(*sc.fc, *sc.s, esi, from_real);
        AppBuf b = app_alloc(sc.E, sc.s->align, content.data());
        sc.store_idx[esi] = (int)sc.delivered.size();
        sc.delivered.push_back(b); sc.delivered_esi.push_back(esi);
        ledger_protect(b.base, sc.E, sc.s->id);
        sc.store_count++;
        count("stored_packets");
    }

    void do_setavail(SesCtx &sc) {
        if (!sc.configured || sc.released || sc.s->role != R_DEC || sc.avail_done || sc.finalised) return;
        if (sc.distinct > 0) return;                         // stream API already used
        sc.avail_tab = (void **)malloc(sizeof(void *) * sc.n);
        sc.avail_copy.assign(sc.n, nullptr);
        for (uint32_t i = 0; i < sc.n; i++) {
            void *p = sc.store_idx[i] >= 0 ? sc.delivered[sc.store_idx[i]].p : nullptr;
            sc.avail_tab[i] = p; sc.avail_copy[i] = p;
            if (p) {
                sc.got[i] = 1; sc.distinct++;
                if (i < sc.k && !sc.avail[i]) sc.first_ptr[i] = p;
            }
        }
        status(&sc, "setavail", false);
        cb_target = &sc;
        int st = ad_set_avail(sc.h, sc.avail_tab, sc.s->id);
        cb_target = nullptr;
        status_done(); res.lib_calls++;
        sc.avail_done = true;
        count("set_available_symbols_calls");
        for (uint32_t i = 0; i < sc.n; i++) if (sc.avail_tab[i] != sc.avail_copy[i]) { viol({"C07"}, "mem", std::string("available-table-modified:codec=") + cn(sc), "entry " + std::to_string(i), &sc); break; }
        if (sc.has_peel) for (uint32_t i = 0; i < sc.n; i++) if (sc.got[i]) sc.peel.add(i);
        if (sc.s->codec == C_2D) {
            // the 2D codec stores copies; pointer identity is not among its claims
            for (auto &p : sc.first_ptr) p = nullptr;
        }
        observe_decoder(sc, "SETAVAIL", -1, st, true);
    }

    void do_finish(SesCtx &sc, const Op &op) {
        if (!sc.configured || sc.released || sc.s->role != R_DEC || sc.finalised) return;
        const bool ldpc = sc.s->codec == C_LDPC, twod = sc.s->codec == C_2D, rs = is_rs(sc);
        if (sc.s->mode == "batch" && !sc.avail_done) return;
        bool before = sc.complete_seen;
        sc.complete_before_finish = before;
        // what the model says about this received set
        bool model_known = false, model_rec = false; RankResult rr{false, 0, 0, false};
        if ((ldpc || twod) && sc.has_peel && judged(sc)) {
            std::vector<uint8_t> known(sc.n, 0);
            for (uint32_t i = 0; i < sc.n; i++) known[i] = sc.got[i];
            if (sc.implicit_last) known[sc.n - 1] = 1;
            rr = rank_recoverable(*sc.fc->code, known);
            model_known = true; model_rec = rr.recoverable;
            if (rr.needed_elimination) { sc.ml_needed = true; count("finish_needs_elimination"); if (rr.recoverable) count("finish_elimination_recoverable"); else if (rr.rows_used >= rr.unknowns) count("finish_rank_deficient_with_enough_rows"); }
        }
        if (before) count("finish_after_completion");
        ad_set_rand_stream(op.rs ? op.rs : 1);
        // fault kind rand_degenerate: one finish in 16 sees a legal but degenerate libc stream (derived from the stream id the
        // plan already carries, so that plans and their PRNG draws are unchanged)
        uint64_t rand_deg0 = ad_rand_degenerate_calls();
        if (op.rs && op.rs % 16 == 0) ad_set_rand_mode(1 + (int)((op.rs / 16) % 4));
        status(&sc, "finish", false);
        cb_target = &sc;
        int st = ad_finish(sc.h, sc.s->id);
        cb_target = nullptr;
        ad_set_rand_mode(0);
        if (ad_rand_degenerate_calls() != rand_deg0) count("fault:rand_degenerate_stream_consumed");
        status_done(); res.lib_calls++;
        sc.finish_called = true; sc.finish_status = st;
        if (!rs) sc.finalised = true;              // LDPC/2D: finish is the final decoding attempt (it consumes the matrix)...
        count(std::string("finish_calls:") + cn(sc));
        observe_decoder(sc, "FINISH", -1, st, false);
        check_app_memory(sc, true);
        bool complete = sc.complete_seen;
        requery_lastnull(sc, "after-finish");
        if (!rs && complete && st == 0) sc.finalised = false;   // ...but packets still in flight may reach a decoded block: late symbols stay legal
        const char *ps = twod ? "C16" : "C10";
        std::string pre = before ? ":pre=complete" : ":pre=incomplete";
        if (st == 0 && !complete) viol({ps}, "status", std::string("finish-ok-but-incomplete:codec=") + cn(sc), "", &sc);
        else if (st == 1 && complete) viol({ps}, "status", std::string("finish-failure-but-complete:codec=") + cn(sc) + pre, "", &sc);
        else if (st >= 2) viol({ps}, "status", std::string("finish-error-status:codec=") + cn(sc) + pre, "status " + std::to_string(st), &sc);
        if (rs && judged(sc)) {
            bool expect = sc.distinct >= sc.k;
            if (expect && (st != 0 || !complete)) viol({"C02"}, "mds", std::string("finish-fails-with-k:codec=") + cn(sc), "status " + std::to_string(st) + " distinct " + std::to_string(sc.distinct), &sc);
            if (!expect && st != 1) viol({"C02"}, "mds", std::string("finish-not-failure-with-fewer:codec=") + cn(sc), "status " + std::to_string(st), &sc);
        }
        if (model_known) {
            if (rr.needed_elimination && complete) { sc.ml_recovered = true; count("finish_elimination_succeeded"); }
            if (model_rec && !complete) {
                std::vector<const char *> props = twod ? std::vector<const char *>{"C16"} : (sc.s->tx == "ref" ? std::vector<const char *>{"C03", "C05"} : std::vector<const char *>{"C03"});
                viol(props, "ml", std::string("recoverable-but-finish-incomplete:codec=") + cn(sc) + (sc.avail_done ? ":api=batch" : ":api=stream") + pre,
                     "unknowns " + std::to_string(rr.unknowns) + " rows " + std::to_string(rr.rows_used) + " k=" + std::to_string(sc.k) + " r=" + std::to_string(sc.r), &sc);
            }
            if (!model_rec && complete) {
                viol({twod ? "C16" : "C03"}, "ml", std::string("complete-but-not-determined:codec=") + cn(sc), "", &sc);
            }
        }
    }

    void do_release(SesCtx &sc) {
        if (!sc.created || sc.released) return;
        const char *pl = sc.s->codec == C_2D ? "C16" : "C08";
        if (sc.configured && sc.s->role == R_DEC && sc.k > 2000) observe_decoder(sc, "QUERY", -1, 0, false);   // refresh the amortised view
        if (sc.configured && sc.s->role == R_DEC) {
            // the application collects what it owns before releasing (API: decoded source symbols are its to free)
            status(&sc, "query", false);
            void **tab = (void **)malloc(sizeof(void *) * (sc.k ? sc.k : 1));
            for (uint32_t i = 0; i < sc.k; i++) tab[i] = nullptr;
            int tst = ad_get_tab(sc.h, tab, sc.s->id);
            status_done(); res.lib_calls++;
            if (tst == 0)
                for (uint32_t i = 0; i < sc.k; i++)
                    if (tab[i] && ledger_is_lib_alloc(tab[i])) {
                        bool seen = false; for (void *p : sc.lib_owned_src) if (p == tab[i]) seen = true;
                        if (!seen) { ledger_handover(tab[i]); sc.lib_owned_src.push_back(tab[i]); }
                    }
            free(tab);
            check_app_memory(sc, true);
        }
        requery_lastnull(sc, "before-release");
        const char *stage = !sc.setp_done ? "created" : (!sc.configured ? "rejected-config" : (sc.s->role == R_ENC ? "encoder" : (sc.finish_called ? (sc.complete_seen ? "after-finish-ok" : "after-finish-fail") : (sc.complete_seen ? "complete" : (sc.avail_done ? "after-setavail" : (sc.distinct ? "mid-decoding" : "configured"))))));
        count(std::string("release_at:") + stage);
        status(&sc, "release", false);
        int st = ad_release(sc.h, sc.s->id);
        status_done(); res.lib_calls++;
        sc.released = true; sc.h = nullptr;
        Hash64 x; trace_step(sc, "RELEASE", -1, st, 0, x);
        // O-LEAK
        std::vector<LedgerEntry> live = ledger_live_of(sc.s->id);
        std::map<std::string, std::pair<int, size_t>> by_site;
        if (!live.empty()) {
            // what the library still reaches from its static storage is a cache, not a leak (LeakSanitizer semantics)
            std::vector<void *> kept = ledger_reachable_from_statics();
            std::sort(kept.begin(), kept.end());
            std::vector<LedgerEntry> really;
            for (auto &e : live) {
                if (std::binary_search(kept.begin(), kept.end(), e.ptr)) { count("allocations_retained_by_static_storage"); ledger_handover(e.ptr); }
                else really.push_back(e);
            }
            live.swap(really);
        }
        for (auto &e : live) { by_site[e.site].first++; by_site[e.site].second += e.size; }
        for (auto &kv : by_site)
            viol({pl}, "leak", std::string("site=") + kv.first + ":codec=" + cn(sc), std::to_string(kv.second.first) + " block(s), " + std::to_string(kv.second.second) + " bytes, released at stage " + stage, &sc);
        for (auto &ev : ledger_take_events())
            viol({"C07", pl}, "mem", ev.kind + ":site=" + ev.site, "in release", &sc);
        // the application now frees everything it owns (really frees: use-after-free by a later call would be an ASan report)
        free_app_side(sc);
    }

    void free_app_side(SesCtx &sc) {
        for (auto &b : sc.delivered) { ledger_unprotect(b.base); app_free(b); }
        sc.delivered.clear();
        for (auto &b : sc.enc_src) { ledger_unprotect(b.base); app_free(b); }
        sc.enc_src.clear();
        for (auto &b : sc.enc_own) app_free(b);
        sc.enc_own.clear();
        for (auto &b : sc.cb_bufs) app_free(b);
        sc.cb_bufs.clear();
        for (void *p : sc.enc_lib) free(p);
        sc.enc_lib.clear();
        for (void *p : sc.lib_owned_src) free(p);
        sc.lib_owned_src.clear();
        if (sc.enc_tab) { free(sc.enc_tab); sc.enc_tab = nullptr; }
        if (sc.avail_tab) { free(sc.avail_tab); sc.avail_tab = nullptr; }
    }

    // call-boundary faults (C09 b): NULL session, ESI out of range, wrong role
    // A session that was created but never (successfully) configured has n = 0: every ESI is outside 0..n-1, so decoding and
    // building calls must be refused with an error status - and the session must still release cleanly.
    void do_fault_unconfigured(SesCtx &sc, const Op &op) {
        const std::string &kind = op.arg;
        uint32_t e = kind == "unconf:esi0" ? 0u : kind == "unconf:esi1" ? 1u : 0xFFFFFFFFu;
        count("api_fault:" + kind + (sc.setp_done ? ":after-rejected-config" : ":before-config"));
        int st;
        status(&sc, "fault", true);
        if (sc.s->role == R_DEC) {
            AppBuf tmp = app_alloc(16, 0, nullptr);
            st = ad_decode(sc.h, tmp.p, e, sc.s->id);
            app_free(tmp);
        } else {
            void *tab[4] = {nullptr, nullptr, nullptr, nullptr};
            st = ad_build(sc.h, tab, e, sc.s->id);
        }
        status_done(); res.lib_calls++;
        if (st == 0) viol({"C09"}, "valid", "bad-call-accepted:" + kind + ":codec=" + cn(sc), "session without a valid configuration", &sc);
        Hash64 x; x.str(kind.c_str());
        trace_step(sc, "FAULT", (int64_t)e, st, 0, x);
    }

    void do_fault(SesCtx &sc, const Op &op) {
        // only before any of_set_fec_parameters call: what a session does after a *rejected* configuration is not covered by
        // C09's wording (n is undefined there), and the unchanged library does crash in that state
        if (sc.created && !sc.setp_done && !sc.released && op.arg.rfind("unconf:", 0) == 0) { do_fault_unconfigured(sc, op); return; }
        if (!sc.configured || sc.released) return;
        if (sc.finalised && !is_rs(sc)) return;
        const std::string &kind = op.arg;
        if (sc.s->both && kind.rfind("role:", 0) == 0) return;
        int st = -1; bool is_bool = false; int bval = 0;
        uint8_t dummy[8] = {0};
        void *nulltab[1] = {nullptr};
        count("api_fault:" + kind);
        status(&sc, "fault", true);
        cb_target = &sc;
        AppBuf tmp;
        if (kind == "null_ses:decode") st = ad_decode(nullptr, dummy, 0, sc.s->id);
        else if (kind == "null_ses:build") st = ad_build(nullptr, nulltab, 0, sc.s->id);
        else if (kind == "null_ses:setavail") st = ad_set_avail(nullptr, nulltab, sc.s->id);
        else if (kind == "null_ses:finish") st = ad_finish(nullptr, sc.s->id);
        else if (kind == "null_ses:complete") { is_bool = true; bval = ad_is_complete(nullptr, sc.s->id); }
        else if (kind == "null_ses:gettab") st = ad_get_tab(nullptr, nulltab, sc.s->id);
        else if (kind == "null_ses:setp") { ad_params p{1, 1, 1, 8, 3, 1}; st = ad_set_params(nullptr, sc.s->codec, &p, 0, sc.s->id); }
        else if (kind == "null_ses:setcb") st = ad_set_cb(nullptr, &Executor::src_cb_tramp, nullptr, this, sc.s->id);
        else if (kind == "null_ses:ctrl") { uint32_t v; st = ad_ctrl_u32(nullptr, 1, &v, sc.s->id); }
        else if (kind == "esi_n" || kind == "esi_n1" || kind == "esi_max") {
            if (sc.s->role != R_DEC || sc.avail_done) { status_done(); cb_target = nullptr; return; }
            uint32_t e = kind == "esi_n" ? sc.n : (kind == "esi_n1" ? sc.n + 1 : 0xFFFFFFFFu);
            tmp = app_alloc(sc.E, sc.s->align, nullptr);
            st = ad_decode(sc.h, tmp.p, e, sc.s->id);
        }
        else if (kind == "build_src" || kind == "build_n" || kind == "build_max") {
            if (sc.s->role != R_ENC) { status_done(); cb_target = nullptr; return; }
            uint32_t e = kind == "build_src" ? (uint32_t)(op.esi >= 0 && op.esi < (int64_t)sc.k ? op.esi : 0) : (kind == "build_n" ? sc.n : 0xFFFFFFFFu);
            st = ad_build(sc.h, sc.enc_tab, e, sc.s->id);
        }
        else if (kind == "role:build") { if (sc.s->role != R_DEC) { status_done(); cb_target = nullptr; return; } void **t = (void **)calloc(sc.n, sizeof(void *)); st = ad_build(sc.h, t, sc.k, sc.s->id); free(t); }
        else if (kind == "role:decode") { if (sc.s->role != R_ENC) { status_done(); cb_target = nullptr; return; } tmp = app_alloc(sc.E, 0, nullptr); st = ad_decode(sc.h, tmp.p, 0, sc.s->id); }
        else if (kind == "role:setavail") { if (sc.s->role != R_ENC) { status_done(); cb_target = nullptr; return; } void **t = (void **)calloc(sc.n, sizeof(void *)); st = ad_set_avail(sc.h, t, sc.s->id); free(t); }
        else if (kind == "role:finish") { if (sc.s->role != R_ENC) { status_done(); cb_target = nullptr; return; } st = ad_finish(sc.h, sc.s->id); }
        else if (kind == "role:complete") { if (sc.s->role != R_ENC) { status_done(); cb_target = nullptr; return; } is_bool = true; bval = ad_is_complete(sc.h, sc.s->id); }
        else if (kind == "role:gettab") { if (sc.s->role != R_ENC) { status_done(); cb_target = nullptr; return; } void **t = (void **)calloc(sc.k ? sc.k : 1, sizeof(void *)); st = ad_get_tab(sc.h, t, sc.s->id); free(t); }
        else { status_done(); cb_target = nullptr; return; }
        cb_target = nullptr;
        status_done(); res.lib_calls++;
        if (tmp.base) app_free(tmp);
        bool rejected = is_bool ? (bval == 0) : (st != 0);
        if (!rejected) viol({"C09"}, "valid", "bad-call-accepted:" + kind + ":codec=" + cn(sc), is_bool ? "returned true" : "returned OK", &sc);
        Hash64 x; x.str(kind.c_str());
        trace_step(sc, "FAULT", op.esi, is_bool ? bval : st, 0, x);
        // "...and leave the session usable": the run simply goes on and every oracle keeps applying
        if (sc.s->role == R_DEC) observe_decoder(sc, "FAULT+", -1, 0, false);
        else check_app_memory(sc, false);
    }

    // ------------------------------------------------------------ twins: same flow, same received set => same outcome
    void check_twins() {
        std::map<std::string, std::vector<SesCtx *>> groups;
        for (auto &kv : ses) {
            SesCtx &sc = kv.second;
            if (sc.s->role != R_DEC || !sc.configured || !judged(sc) || sc.s->codec != C_LDPC) continue;
            Hash64 h; for (uint32_t i = 0; i < sc.n; i++) h.byte(sc.got[i]);
            std::string key = std::to_string(sc.s->flow) + ":" + (sc.finish_called ? "F" : "S") + ":" + std::to_string(h.h);
            groups[key].push_back(&sc);
        }
        for (auto &g : groups) {
            if (g.second.size() < 2) continue;
            count("twin_groups");
            SesCtx *a = g.second[0];
            for (size_t i = 1; i < g.second.size(); i++) {
                SesCtx *b = g.second[i];
                if (a->avail != b->avail || a->complete_seen != b->complete_seen) {
                    cur_op = -1;
                    viol({a->finish_called ? "C03" : "C04"}, a->finish_called ? "ml" : "peel", "twin-receivers-disagree", "sessions " + std::to_string(a->s->id) + " and " + std::to_string(b->s->id) + " got the same set", b);
                }
            }
        }
    }

    // ------------------------------------------------------------ main loop
    void run() {
        uint64_t refused0 = ledger_refused_huge();
        if (!shim_available()) count("whitebox_shim_unavailable");
        ledger_reset();
        ad_global_reset(opt.solo_session >= 0 && opt.solo_scramble ? opt.solo_scramble : plan.scramble);
        ad_set_rand_stream(plan.scramble);
        for (size_t i = 0; i < plan.ops.size(); i++) {
            const Op &op = plan.ops[i];
            if (opt.solo_session >= 0 && op.ses != opt.solo_session) continue;
            cur_op = (int)i;
            SesCtx *sc = get_ses(op.ses);
            if (!sc || sc->dead) continue;
            if (op.op == "CREATE") do_create(*sc);
            else if (op.op == "SETP") do_setp(*sc);
            else if (op.op == "SETCB") do_setcb(*sc);
            else if (op.op == "CTRLSET") do_ctrlset(*sc, op);
            else if (op.op == "BUILD") do_build(*sc, op);
            else if (op.op == "CTRL") do_ctrl(*sc);
            else if (op.op == "DELIVER") do_deliver(*sc, op);
            else if (op.op == "STORE") do_store(*sc, op);
            else if (op.op == "SETAVAIL") do_setavail(*sc);
            else if (op.op == "FINISH") do_finish(*sc, op);
            else if (op.op == "RELEASE") do_release(*sc);
            else if (op.op == "FAULT") do_fault(*sc, op);
        }
        // end of run: every surviving session is released (the application shuts down)
        cur_op = (int)plan.ops.size();
        for (auto &kv : ses) if (kv.second.created && !kv.second.released) do_release(kv.second);
        cur_op = -1;
        if (opt.solo_session < 0) check_twins();
        // anything still alive in the ledger that belongs to no session?
        summarize();
        if (ledger_refused_huge() != refused0) count("huge_allocations_refused", (int64_t)(ledger_refused_huge() - refused0));
        res.log_hash = log.h; res.interleave_hash = inter.h;
    }

    // C09, last clause: "whenever it returns OK the session then encodes and decodes correctly". For flows whose
    // configuration was deliberately put on a boundary of the domain (flow.oti set), any other oracle's violation on one of
    // their accepted sessions is also a C09 violation.
    void accepted_but_misbehaves() {
        std::vector<Violation> extra;
        for (auto &v : res.viol) {
            if (v.prop == "C09" || v.ses < 0) continue;
            auto it = ses.find(v.ses);
            if (it == ses.end() || !it->second.configured) continue;
            const Flow *f = it->second.fc->f;
            if (!f || f->oti.empty()) continue;
            Violation w; w.prop = "C09"; w.cls = "valid"; w.op = v.op; w.ses = v.ses;
            w.key = "accepted-configuration-misbehaves:" + f->oti + ":" + v.cls + ":codec=" + cn(it->second);
            w.detail = v.prop + " " + v.key + " (" + v.detail + "); k=" + std::to_string(f->k) + " r=" + std::to_string(f->r) + " E=" + std::to_string(f->E) + " N1=" + std::to_string(f->N1) + " seed=" + std::to_string(f->pseed);
            bool dup = false;
            for (auto &o : res.viol) if (o.prop == w.prop && o.key == w.key) dup = true;
            for (auto &o : extra) if (o.key == w.key) dup = true;
            if (!dup) extra.push_back(w);
        }
        for (auto &w : extra) res.viol.push_back(w);
    }

    void summarize() {
        accepted_but_misbehaves();
        for (auto &kv : ses) {
            SesCtx &sc = kv.second;
            SessionSummary ss;
            ss.id = sc.s->id; ss.codec = sc.s->codec; ss.m = sc.s->m; ss.k = sc.k; ss.r = sc.r; ss.E = sc.E;
            ss.nontrivial_c01 = sc.decoded_cnt > 0; ss.ml_needed = sc.ml_needed; ss.ml_recovered = sc.ml_recovered;
            Hash64 h; h.u64(sc.s->codec); h.u64(sc.s->m); h.u64(sc.k); h.u64(sc.r); h.u64(sc.E); h.u64(sc.fc->f ? sc.fc->f->N1 : 0); h.u64(sc.fc->f ? sc.fc->f->pseed : 0);
            h.str(sc.s->mode.c_str()); h.str(sc.s->cb.c_str()); h.u64(sc.finish_called);
            for (uint32_t i = 0; i < sc.got.size(); i++) h.byte(sc.got[i]);
            for (uint32_t i = 0; i < sc.built.size(); i++) h.byte(sc.built[i]);
            ss.fp = h.h; Hash64 h2 = h; h2.u64(sc.order_hash.h); ss.fp_order = h2.h;
            ss.trace = sc.trace; ss.trace_ops = sc.trace_ops; ss.trace_kind = sc.trace_kind;
            res.sessions.push_back(ss);
            if (!sc.configured) continue;
            const std::string &p = opt.profile;
            bool nt;
            bool dec = sc.s->role == R_DEC;
            if (p == "C01" || p == "C07" || p == "C10") nt = dec && sc.decoded_cnt > 0;
            else if (p == "C02") nt = dec && is_rs(sc) && sc.decoded_cnt > 0;
            else if (p == "C03") nt = dec && sc.ml_needed;
            else if (p == "C04") nt = dec && sc.s->codec == C_LDPC && sc.decoded_cnt > 0 && !sc.finish_called;
            else if (p == "C05" || p == "C15") nt = sc.s->codec == C_LDPC;
            else if (p == "C06") nt = !dec && std::count(sc.built.begin(), sc.built.end(), 1) > 0;
            else if (p == "C08") nt = true;
            else if (p == "C09") nt = true;
            else if (p == "C11") nt = dec && sc.cb_set && sc.cb_calls > 0;
            else if (p == "C12") nt = true;
            else if (p == "C16") nt = sc.s->codec == C_2D;
            else nt = true;
            if (nt) res.fps.insert(p == "C04" || p == "C12" ? ss.fp_order : ss.fp);
        }
    }
};

}  // namespace

RunResult execute_plan(const Plan &plan, const ExecOptions &opt, PacketStore *capture) {
    PacketStore local;
    PacketStore *cap = capture ? capture : (opt.check_indep ? &local : nullptr);
    auto ex = std::make_unique<Executor>(plan, opt, cap);
    ex->run();
    RunResult res = std::move(ex->res);
    ex.reset();
    if (opt.check_indep && opt.solo_session < 0) {
        // O-INDEP (C12): every session's projection of the plan, executed alone, must be observed identically. A cold-start
        // run (first use of a codec happens inside the run) is compared with solo replays in a process that HAS used the
        // codecs before: "works only after some other session ran" is a dependence on other sessions too.
        if (plan.cold) shim_warm_rs();
        for (auto &ss : res.sessions) {
            ExecOptions so = opt;
            so.solo_session = ss.id; so.packets = cap; so.check_indep = false; so.trace = false;
            so.solo_scramble = (mix64(plan.scramble, (uint64_t)ss.id) % 2147483646ULL) + 1;
            auto ex2 = std::make_unique<Executor>(plan, so, nullptr);
            ex2->run();
            const SessionSummary *solo = nullptr;
            for (auto &s2 : ex2->res.sessions) if (s2.id == ss.id) solo = &s2;
            res.counts["solo_replays"]++;
            if (!solo) continue;
            size_t nmin = std::min(solo->trace.size(), ss.trace.size());
            size_t d = 0;
            while (d < nmin && solo->trace[d] == ss.trace[d]) d++;
            if (d < nmin || solo->trace.size() != ss.trace.size()) {
                Violation v; v.prop = "C12"; v.cls = "indep";
                std::string kind = d < ss.trace_kind.size() ? ss.trace_kind[d] : "length";
                v.key = std::string("observation-differs-when-alone:codec=") + codec_name(ss.codec, ss.m) + ":call=" + kind;
                v.detail = "session " + std::to_string(ss.id) + " step " + std::to_string(d);
                v.op = d < ss.trace_ops.size() ? ss.trace_ops[d] : -1; v.ses = ss.id;
                bool dup = false;
                for (auto &o : res.viol) if (o.prop == v.prop && o.key == v.key) dup = true;
                if (!dup) res.viol.push_back(v);
            }
            // a violation that only shows when alone is still a violation of whatever oracle raised it
            for (auto &v : ex2->res.viol) {
                bool dup = false;
                for (auto &o : res.viol) if (o.prop == v.prop && o.cls == v.cls && o.key == v.key) dup = true;
                if (!dup) { Violation w = v; w.detail += " (seen in solo replay of session " + std::to_string(ss.id) + ")"; res.viol.push_back(w); }
            }
        }
    }
    return res;
}
