/* White-box shim: the only part of the simulator that depends on library INTERNALS (control-block layout, the
 * RFC 5170 PRNG entry point). It is compiled separately; if a refactoring of the library makes it fail to compile,
 * bin/fsbuild.py links shim_stub.c instead and the checks go on with the black-box oracles only (the evidence says so). */
#include <string.h>
#include <stdlib.h>
#include "adapter.h"
#include "lib_common/of_openfec_api.h"
#include "lib_common/of_rand.h"
#include "lib_stable/ldpc_staircase/of_ldpc_includes.h"

int shim_available(void) { return 1; }

/* start of a run: put the library's global PRNG into a state the run's own sessions must overwrite */
void shim_scramble_prng(uint64_t scramble) { of_rfc5170_srand(scramble); }

int shim_pchk_walk(void *ses, shim_entry_fn fn, void *ctx)
{
    of_cb_t *cb = (of_cb_t *)ses;
    if (cb->codec_id != OF_CODEC_LDPC_STAIRCASE_STABLE)
        return -1;
    of_ldpc_staircase_cb_t *l = (of_ldpc_staircase_cb_t *)ses;
    if (l->pchk_matrix == NULL)
        return -1;
    UINT32 row;
    of_mod2entry *e;
    for (row = 0; row < l->nb_repair_symbols; row++) {
        for (e = of_mod2sparse_first_in_row(l->pchk_matrix, row); !of_mod2sparse_at_end(e); e = of_mod2sparse_next_in_row(e)) {
            fn(ctx, row, (uint32_t)of_get_symbol_esi((of_cb_t *)l, e->col));
        }
    }
    return 0;
}

int shim_extra_entries(void *ses)
{
    of_ldpc_staircase_cb_t *l = (of_ldpc_staircase_cb_t *)ses;
    return l->extra_entries_added_in_pchk ? 1 : 0;
}

