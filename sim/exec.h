// Plan interpreter: executes a plan against the real library and evaluates the oracles after every call.
#pragma once
#include "plan.h"
#include <string>
#include <vector>
#include <map>
#include <set>
#include <cstdint>

struct Violation {
    std::string prop, cls, key, detail;
    int op = -1;          // index of the op (in the plan's op list) during/after which it was observed
    int ses = -1;
};

struct SessionSummary {
    int id; int codec; int m; uint32_t k, r, E;
    bool nontrivial_c01 = false;   // >=1 source symbol decoded rather than received
    bool ml_needed = false;        // finish called while peeling closure did not contain all sources
    bool ml_recovered = false;
    uint64_t fp = 0;               // fingerprint (codec, params, mode, received set, order-insensitive)
    uint64_t fp_order = 0;         // fingerprint including arrival order
    std::vector<uint64_t> trace;   // per-call observation hashes (C12)
    std::vector<int> trace_ops;    // op index of each trace step
    std::vector<std::string> trace_kind;
};

struct RunResult {
    std::vector<Violation> viol;
    std::map<std::string, int64_t> counts;      // fault counts and probes that actually fired
    std::vector<SessionSummary> sessions;
    std::set<uint64_t> fps;                     // distinct non-trivial fingerprints for the profile's rule
    uint64_t log_hash = 0;
    int64_t lib_calls = 0;
    uint64_t interleave_hash = 0;
};

struct PacketStore {          // captured outputs of real senders: flow -> esi -> bytes (inputs of the receivers)
    std::map<int, std::map<uint32_t, std::vector<uint8_t>>> real_rep;
    std::map<int, bool> tainted;
};

struct ExecOptions {
    std::string profile;          // which rule defines "non-trivial"
    int solo_session = -1;        // >=0: execute only this session's ops (C12 projection)
    const PacketStore *packets = nullptr;   // solo runs get the packets the main run saw
    bool trace = false;           // print every call to stderr
    bool check_indep = false;     // after the run, replay every session alone in-process and compare traces
    uint64_t solo_scramble = 0;
};

// status page for crash attribution (set by main; may be null)
struct StatusPage { volatile int64_t run; volatile int32_t op; volatile int32_t corrupt; volatile int32_t ses_codec; volatile int32_t in_call; char what[64]; };
extern StatusPage *g_status;

RunResult execute_plan(const Plan &plan, const ExecOptions &opt, PacketStore *capture = nullptr);
