// A plan is the complete, explicit description of one simulated run: flows (blocks), sessions, and a
// time-ordered list of operations with their fault annotations. It is produced by the generator without
// touching the library and interpreted by the executor without drawing random numbers. A replay file is a
// plan (JSON lines). Any sub-list of the op lines is again a valid plan (ops are interpreted modulo enabled).
#pragma once
#include <cstdint>
#include <string>
#include <vector>
#include <map>

enum Codec { C_RS8 = 1, C_RS2M = 2, C_LDPC = 3, C_2D = 5 };
enum Role { R_ENC = 1, R_DEC = 2 };

struct Flow {
    int id = 0;
    int codec = 0, m = 0;             // nominal code of the block (sessions may use the byte-compatible sibling codec)
    uint32_t k = 0, r = 0, E = 0;
    uint32_t N1 = 0, pseed = 0;       // LDPC
    std::string payload = "rand";     // rand | ident | zero | ff
    uint64_t plseed = 0;
    std::string oti;                  // "" or the name of the deliberately corrupted OTI field (C09)
};

struct Session {
    int id = 0;
    int flow = 0;
    int codec = 0;
    int m = 0;                        // codec 2
    int role = R_DEC;
    std::string mode = "stream";      // decoders: stream | finish | batch
    std::string cb = "none";          // none | buf | null | mix
    uint64_t cbseed = 0;
    int align = 0;                    // misalignment 0..15 of every application symbol buffer of this session
    std::string tag = "flow";         // flow | tenant | probe | restart | twin
    std::string tx = "real";          // encoders: "real"; decoders: which sender's packets they get: real | ref
    int both = 0;                     // 1: the instance is created as OF_ENCODER_AND_DECODER (and used in the role above)
};

struct Op {
    int64_t t = 0;                    // simulated time (us) - informational, order is the list order
    int ses = 0;
    std::string op;                   // CREATE SETP SETCB BUILD CTRL DELIVER STORE SETAVAIL FINISH RELEASE FAULT
    int64_t esi = -1;
    std::string arg;                  // BUILD: slot "null"|"own"; FAULT: kind; DELIVER: "dup"/"late" annotations
    uint64_t rs = 0;                  // FINISH: seed of the libc rand() stream the call will see
};

struct Plan {
    uint64_t seed = 0; uint64_t run = 0;
    std::string profile;
    uint64_t scramble = 1;
    bool cold = false;
    std::vector<Flow> flows;
    std::vector<Session> sessions;
    std::vector<Op> ops;
    std::map<std::string, int64_t> gen;     // generator-side fault counters (dropped, duplicated, ...)
    int64_t sim_us = 0;

    const Flow *flow(int id) const { for (auto &f : flows) if (f.id == id) return &f; return nullptr; }
    const Session *session(int id) const { for (auto &s : sessions) if (s.id == id) return &s; return nullptr; }
    std::string to_jsonl() const;
    static bool from_jsonl(const std::string &text, Plan &out, std::string &err);
};

// minimal flat-JSON helpers (objects of string / integer values only)
std::string jstr(const std::string &s);
bool parse_flat_json(const std::string &line, std::map<std::string, std::string> &out);
