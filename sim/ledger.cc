#include "ledger.h"
#include "adapter.h"
#include <unordered_map>
#include <algorithm>
#include <cstring>
#include <cstdio>
#include <cstdlib>
#include <elf.h>
#include <fcntl.h>
#include <unistd.h>
#include <sys/mman.h>
#include <sys/stat.h>

extern "C" {
void *__real_malloc(size_t);
void *__real_calloc(size_t, size_t);
void *__real_realloc(void *, size_t);
void __real_free(void *);
}

namespace {
struct Rec { size_t size; int ses; uint64_t seq; const void *site; bool handed; };
struct Prot { size_t size; int ses; };

// The maps allocate through operator new (libstdc++ -> the sanitizer's allocator), which is not
// wrapped, so there is no recursion. Iteration order of these maps is never used for a decision:
// results are always sorted by allocation sequence number.
std::unordered_map<void *, Rec> *g_live;
std::unordered_map<void *, Prot> *g_prot;
std::vector<LedgerEvent> *g_events;
uint64_t g_seq = 0, g_allocs = 0, g_frees = 0;
bool g_busy = false;

void ensure() {
    if (!g_live) {
        g_busy = true;
        g_live = new std::unordered_map<void *, Rec>();
        g_prot = new std::unordered_map<void *, Prot>();
        g_events = new std::vector<LedgerEvent>();
        g_busy = false;
    }
}

// ---- ELF symbol table of this executable (linked -no-pie, so addresses are link-time addresses) ----
struct Sym { uintptr_t addr; size_t size; const char *name; };
std::vector<Sym> *g_syms;
void load_syms() {
    if (g_syms) return;
    g_syms = new std::vector<Sym>();
    int fd = open("/proc/self/exe", O_RDONLY);
    if (fd < 0) return;
    struct stat st;
    if (fstat(fd, &st) != 0) { close(fd); return; }
    void *map = mmap(nullptr, st.st_size, PROT_READ, MAP_PRIVATE, fd, 0);
    close(fd);
    if (map == MAP_FAILED) return;
    const uint8_t *base = (const uint8_t *)map;
    const Elf64_Ehdr *eh = (const Elf64_Ehdr *)base;
    const Elf64_Shdr *sh = (const Elf64_Shdr *)(base + eh->e_shoff);
    for (int i = 0; i < eh->e_shnum; i++) {
        if (sh[i].sh_type != SHT_SYMTAB) continue;
        const Elf64_Sym *syms = (const Elf64_Sym *)(base + sh[i].sh_offset);
        size_t n = sh[i].sh_size / sizeof(Elf64_Sym);
        const char *str = (const char *)(base + sh[sh[i].sh_link].sh_offset);
        for (size_t j = 0; j < n; j++) {
            if (ELF64_ST_TYPE(syms[j].st_info) != STT_FUNC || syms[j].st_value == 0) continue;
            g_syms->push_back(Sym{(uintptr_t)syms[j].st_value, (size_t)syms[j].st_size, str + syms[j].st_name});
        }
    }
    std::sort(g_syms->begin(), g_syms->end(), [](const Sym &a, const Sym &b) { return a.addr < b.addr; });
    // the mapping is kept for the lifetime of the process (names point into it)
}

const char *sym_of(const void *addr) {
    load_syms();
    uintptr_t a = (uintptr_t)addr;
    size_t lo = 0, hi = g_syms->size();
    while (lo < hi) { size_t mid = (lo + hi) / 2; if ((*g_syms)[mid].addr <= a) lo = mid + 1; else hi = mid; }
    if (lo == 0) return "?";
    const Sym &s = (*g_syms)[lo - 1];
    if (s.size && a >= s.addr + s.size) return "?";
    return s.name;
}

bool is_mem_wrapper(const char *n) {
    return !strcmp(n, "of_malloc") || !strcmp(n, "of_calloc") || !strcmp(n, "of_realloc") || !strcmp(n, "of_free") ||
           !strncmp(n, "__wrap_", 7) || !strcmp(n, "?");
}

// Walk the frame-pointer chain (everything is built with -fno-omit-frame-pointer) and return the first
// return address that is not inside of_mem.c / the wrappers.
__attribute__((noinline)) const void *caller_site(void *frame0) {
    void **fp = (void **)frame0;
    const void *last = nullptr;
    for (int depth = 0; depth < 6 && fp; depth++) {
        const void *ret = fp[1];
        if (!ret) break;
        last = ret;
        if (!is_mem_wrapper(sym_of(ret))) return ret;
        void **next = (void **)fp[0];
        if (next <= fp || (uintptr_t)next - (uintptr_t)fp > (1u << 20)) break;
        fp = next;
    }
    return last;
}

void record(void *p, size_t size, void *frame) {
    if (!p || g_busy) return;
    ensure();
    g_busy = true;
    const void *site = caller_site(frame);
    (*g_live)[p] = Rec{size, g_cur_ses, ++g_seq, site, false};
    g_allocs++;
    g_busy = false;
}

// returns true if the pointer was a ledger entry
void on_free(void *p, void *frame) {
    if (!p || g_busy || !g_live) return;
    g_busy = true;
    auto it = g_live->find(p);
    if (it != g_live->end()) {
        if (g_in_lib > 0) g_frees++;
        g_live->erase(it);
    } else if (g_in_lib > 0) {
        auto pt = g_prot->find(p);
        if (pt != g_prot->end()) {
            const void *site = caller_site(frame);
            g_events->push_back(LedgerEvent{"lib-frees-app-memory", g_cur_ses, sym_of(site), ++g_seq});
        }
    }
    g_busy = false;
}
}  // namespace

extern "C" {
// The simulated machine refuses any single allocation above 1 GiB (deterministically, whatever the real host
// could provide): what the library does with a request of 16 GiB must not depend on the sandbox's free memory.
static const size_t kMaxAlloc = (size_t)1 << 30;
uint64_t g_refused_huge = 0;

__attribute__((noinline)) void *__wrap_malloc(size_t n) {
    if (g_in_lib > 0 && n > kMaxAlloc) { g_refused_huge++; return nullptr; }
    void *p = __real_malloc(n);
    if (g_in_lib > 0) record(p, n, __builtin_frame_address(0));
    return p;
}
__attribute__((noinline)) void *__wrap_calloc(size_t a, size_t b) {
    if (g_in_lib > 0 && (a > kMaxAlloc || b > kMaxAlloc || a * b > kMaxAlloc)) { g_refused_huge++; return nullptr; }
    void *p = __real_calloc(a, b);
    if (g_in_lib > 0) record(p, a * b, __builtin_frame_address(0));
    return p;
}
__attribute__((noinline)) void *__wrap_realloc(void *old, size_t n) {
    if (g_in_lib > 0 && n > kMaxAlloc) { g_refused_huge++; return nullptr; }
    int ses = -2;
    if (old && g_live && !g_busy) {
        g_busy = true;
        auto it = g_live->find(old);
        if (it != g_live->end()) { ses = it->second.ses; g_live->erase(it); }
        g_busy = false;
    }
    void *p = __real_realloc(old, n);
    if (g_in_lib > 0 || ses != -2) {
        int keep = g_cur_ses;
        if (g_in_lib == 0) g_cur_ses = ses;
        record(p, n, __builtin_frame_address(0));
        g_cur_ses = keep;
    }
    return p;
}
__attribute__((noinline)) void __wrap_free(void *p) {
    on_free(p, __builtin_frame_address(0));
    __real_free(p);
}
}

void ledger_reset() {
    ensure();
    g_busy = true;
    g_live->clear(); g_prot->clear(); g_events->clear();
    g_busy = false;
}
void ledger_protect(void *p, size_t size, int ses) { ensure(); g_busy = true; (*g_prot)[p] = Prot{size, ses}; g_busy = false; }
void ledger_unprotect(void *p) { if (!g_prot) return; g_busy = true; g_prot->erase(p); g_busy = false; }
bool ledger_is_lib_alloc(void *p) { return g_live && g_live->count(p); }
int ledger_owner(void *p) { if (!g_live) return -1; auto it = g_live->find(p); return it == g_live->end() ? -1 : it->second.ses; }
size_t ledger_size(void *p) { if (!g_live) return 0; auto it = g_live->find(p); return it == g_live->end() ? 0 : it->second.size; }
void ledger_handover(void *p) { if (!g_live) return; auto it = g_live->find(p); if (it != g_live->end()) it->second.handed = true; }
std::vector<LedgerEntry> ledger_live_of(int ses) {
    std::vector<LedgerEntry> out;
    if (!g_live) return out;
    g_busy = true;
    for (auto &kv : *g_live)
        if (kv.second.ses == ses && !kv.second.handed)
            out.push_back(LedgerEntry{kv.first, kv.second.size, kv.second.ses, kv.second.seq, sym_of(kv.second.site)});
    std::sort(out.begin(), out.end(), [](const LedgerEntry &a, const LedgerEntry &b) { return a.seq < b.seq; });
    g_busy = false;
    return out;
}
// LeakSanitizer semantics for C08 ("process exit under LeakSanitizer"): a block that is still reachable from the
// library's static storage - a correctly keyed process-wide cache, a lazily built table - is not a leak of the session
// whose call happened to allocate it. Mark phase: the executable's .data/.bss are scanned for pointers into live library
// blocks, then the marked blocks themselves. (Redzones of instrumented globals are read on purpose: no ASan here.)
extern "C" { extern char __data_start[]; extern char _end[]; }
__attribute__((no_sanitize("address"))) static void scan_range(const char *lo, const char *hi, const std::vector<std::pair<uintptr_t, uintptr_t>> &blocks, std::vector<uint8_t> &mark, std::vector<size_t> &work) {
    lo = (const char *)(((uintptr_t)lo + 7) & ~(uintptr_t)7);
    for (const char *p = lo; p + sizeof(void *) <= hi; p += sizeof(void *)) {
        uintptr_t v = *(const uintptr_t *)p;
        if (v < blocks.front().first || v >= blocks.back().second) continue;
        size_t a = 0, b = blocks.size();
        while (a < b) { size_t m = (a + b) / 2; if (blocks[m].second <= v) a = m + 1; else b = m; }
        if (a < blocks.size() && blocks[a].first <= v && v < blocks[a].second && !mark[a]) { mark[a] = 1; work.push_back(a); }
    }
}

std::vector<void *> ledger_reachable_from_statics() {
    std::vector<void *> out;
    if (!g_live || g_live->empty()) return out;
    g_busy = true;
    std::vector<std::pair<uintptr_t, uintptr_t>> blocks;
    for (auto &kv : *g_live) blocks.push_back({(uintptr_t)kv.first, (uintptr_t)kv.first + (kv.second.size ? kv.second.size : 1)});
    std::sort(blocks.begin(), blocks.end());
    std::vector<uint8_t> mark(blocks.size(), 0);
    std::vector<size_t> work;
    // the ledger's own bookkeeping pointers live on the heap, not in .data/.bss, except g_live/g_prot themselves, which
    // point to map objects, never to a library block
    scan_range(__data_start, _end, blocks, mark, work);
    while (!work.empty()) {
        size_t i = work.back(); work.pop_back();
        scan_range((const char *)blocks[i].first, (const char *)blocks[i].second, blocks, mark, work);
    }
    for (size_t i = 0; i < blocks.size(); i++) if (mark[i]) out.push_back((void *)blocks[i].first);
    g_busy = false;
    return out;
}

size_t ledger_live_count() { return g_live ? g_live->size() : 0; }
std::vector<LedgerEvent> ledger_take_events() { std::vector<LedgerEvent> e; if (g_events) e.swap(*g_events); return e; }
uint64_t ledger_lib_allocs() { return g_allocs; }
uint64_t ledger_lib_frees() { return g_frees; }
uint64_t ledger_refused_huge() { return g_refused_huge; }
std::string symbolize(const void *addr) { return sym_of(addr); }
