// fecsim: command-line front end of the simulator (see DESIGN.md section 12).
//   fecsim gen  --seed S --run I --profile P [--thorough] [--avoid a,b]         plan to stdout (no library call)
//   fecsim exec --plan FILE --out FILE [--profile P] [--trace] [--warm]          one plan against the library
//   fecsim work --seed S --from A --to B --profile P --out FILE [--thorough] [--per-run] [--avoid a,b] [--asan-log PFX]
#include "plan.h"
#include "gen.h"
#include "exec.h"
#include "adapter.h"
#include "prng.h"
#include <cstdio>
#include <cstdlib>
#include <cstring>
#include <string>
#include <sstream>
#include <vector>
#include <fstream>
#include <map>
#include <set>
#include <unistd.h>
#include <fcntl.h>
#include <signal.h>
#include <sys/mman.h>
#include <sys/wait.h>
#include <time.h>

// ASan/UBSan: a report must end the process with a recognisable code; leak-at-exit is replaced by the exact ledger.
extern "C" __attribute__((used, visibility("default"))) const char *__asan_default_options() {
    return "exitcode=77:detect_leaks=0:allocator_may_return_null=1:abort_on_error=0:handle_abort=1:print_stacktrace=1:quarantine_size_mb=16:malloc_fill_byte=190:max_malloc_fill_size=268435456";
}
extern "C" __attribute__((used, visibility("default"))) const char *__ubsan_default_options() {
    return "print_stacktrace=1:halt_on_error=1";
}

// present only in the coverage build (bin/reach): children leave through _exit, so the profile is written explicitly
extern "C" int __llvm_profile_write_file(void) __attribute__((weak));
static void leave(int code) { if (__llvm_profile_write_file) __llvm_profile_write_file(); _exit(code); }

static std::map<std::string, std::string> parse_args(int argc, char **argv, int from) {
    std::map<std::string, std::string> a;
    for (int i = from; i < argc; i++) {
        std::string k = argv[i];
        if (k.rfind("--", 0) != 0) continue;
        k = k.substr(2);
        if (i + 1 < argc && strncmp(argv[i + 1], "--", 2) != 0) a[k] = argv[++i]; else a[k] = "1";
    }
    return a;
}

static GenOptions gen_options(const std::map<std::string, std::string> &a) {
    GenOptions g;
    auto it = a.find("profile"); if (it != a.end()) g.profile = it->second;
    g.thorough = a.count("thorough") > 0;
    it = a.find("avoid");
    if (it != a.end()) {
        std::stringstream ss(it->second); std::string tok;
        while (std::getline(ss, tok, ',')) {
            if (tok == "null_cb") g.allow_null_cb = false;
            if (tok == "null_slot") g.allow_null_slot = false;
            if (tok == "both") g.allow_both = false;
        }
    }
    return g;
}

static std::string viol_json(const Violation &v) {
    std::ostringstream o;
    o << "{\"prop\":" << jstr(v.prop) << ",\"class\":" << jstr(v.cls) << ",\"key\":" << jstr(v.key) << ",\"detail\":" << jstr(v.detail)
      << ",\"op\":" << v.op << ",\"ses\":" << v.ses << "}";
    return o.str();
}

static int64_t g_child_start = -1;      // first run index executed by the current long-lived child (its history starts there)

static std::string result_json(const Plan &p, const RunResult &r, bool with_counts) {
    std::ostringstream o;
    o << "{\"run\":" << p.run << ",\"child_start\":" << g_child_start << ",\"ok\":" << (r.viol.empty() ? "true" : "false") << ",\"viol\":[";
    for (size_t i = 0; i < r.viol.size(); i++) { if (i) o << ","; o << viol_json(r.viol[i]); }
    o << "],\"log_hash\":\"" << std::hex << r.log_hash << std::dec << "\",\"lib_calls\":" << r.lib_calls << ",\"nops\":" << p.ops.size() << ",\"cold\":" << (p.cold ? 1 : 0);
    if (with_counts) {
        o << ",\"counts\":{";
        bool f = true;
        for (auto &kv : r.counts) { if (!f) o << ","; f = false; o << jstr(kv.first) << ":" << kv.second; }
        for (auto &kv : p.gen) { if (!f) o << ","; f = false; o << jstr("net:" + kv.first) << ":" << kv.second; }
        o << "}";
    }
    o << "}";
    return o.str();
}

static void quiet_stdio() {
    int fd = open("/dev/null", O_WRONLY);
    if (fd >= 0) { dup2(fd, 1); dup2(fd, 2); close(fd); }
}

static bool read_file(const std::string &path, std::string &out) {
    std::ifstream in(path, std::ios::binary);
    if (!in) return false;
    std::ostringstream ss; ss << in.rdbuf(); out = ss.str();
    return true;
}

static bool g_no_cold = false;
static bool is_cold_index(uint64_t seed, uint64_t run) { return !g_no_cold && cold_candidate(seed, run); }

static int cmd_gen(const std::map<std::string, std::string> &a) {
    uint64_t seed = strtoull(a.count("seed") ? a.at("seed").c_str() : "1", nullptr, 10);
    uint64_t run = strtoull(a.count("run") ? a.at("run").c_str() : "0", nullptr, 10);
    if (a.count("list-warm")) {       // run indices of [from, to) that a long-lived worker child executes (the others are cold-start runs)
        uint64_t f = strtoull(a.count("from") ? a.at("from").c_str() : "0", nullptr, 10), t = strtoull(a.count("to") ? a.at("to").c_str() : "0", nullptr, 10);
        for (uint64_t i = f; i < t; i++) if (!is_cold_index(seed, i)) printf("%llu\n", (unsigned long long)i);
        return 0;
    }
    if (a.count("sweep-total")) { printf("%llu\n", (unsigned long long)sweep_total(gen_options(a).profile, seed)); return 0; }
    Plan p = a.count("sweep") ? generate_sweep_plan(seed, run, gen_options(a)) : generate_plan(seed, run, gen_options(a));
    fputs(p.to_jsonl().c_str(), stdout);
    return 0;
}

// A replay file holds one plan, or several: the plans are then executed one after the other in the same process and
// the last one is the run under scrutiny (its predecessors are the history of the worker process that first executed it -
// needed only when the library keeps state across sessions in static storage).
static std::vector<std::string> split_plans(const std::string &text) {
    std::vector<std::string> out; std::string cur;
    std::istringstream in(text); std::string line;
    while (std::getline(in, line)) {
        if (line.rfind("{\"v\":", 0) == 0 && !cur.empty()) { out.push_back(cur); cur.clear(); }
        if (line.empty() || line[0] == '#') continue;
        cur += line; cur += "\n";
    }
    if (!cur.empty()) out.push_back(cur);
    return out;
}

static int cmd_exec(const std::map<std::string, std::string> &a) {
    std::string text, err;
    if (!a.count("plan") || !read_file(a.at("plan"), text)) { fprintf(stderr, "fecsim exec: cannot read plan\n"); return 2; }
    std::vector<Plan> plans;
    for (auto &t : split_plans(text)) {
        Plan p;
        if (!Plan::from_jsonl(t, p, err)) { fprintf(stderr, "fecsim exec: %s\n", err.c_str()); return 2; }
        plans.push_back(p);
    }
    if (plans.empty()) { fprintf(stderr, "fecsim exec: empty plan file\n"); return 2; }
    FILE *out = a.count("out") ? fopen(a.at("out").c_str(), "w") : nullptr;
    bool trace = a.count("trace") > 0;
    if (!trace) quiet_stdio();
    else { int fd = open("/dev/null", O_WRONLY); dup2(fd, 1); close(fd); }
    static StatusPage page; g_status = &page;
    // C12, multi-plan file: what the last plan's sessions observe must not depend on the plans executed before it in the
    // same process. Reference = the last plan executed alone in a child forked before anything else ran.
    uint64_t alone_hash = 0; bool have_alone = false;
    std::string prof0 = a.count("profile") ? a.at("profile") : plans.back().profile;
    if (plans.size() > 1 && prof0 == "C12") {
        int pfd[2];
        if (pipe(pfd) == 0) {
            pid_t pid = fork();
            if (pid == 0) {
                close(pfd[0]);
                shim_warm_rs();
                ExecOptions eo; eo.profile = prof0; eo.check_indep = false;
                alarm(60);
                RunResult rr = execute_plan(plans.back(), eo);
                uint64_t h = rr.log_hash;
                if (write(pfd[1], &h, sizeof h) != (ssize_t)sizeof h) _exit(1);
                _exit(0);
            }
            close(pfd[1]);
            int wst = 0; waitpid(pid, &wst, 0);
            if (read(pfd[0], &alone_hash, sizeof alone_hash) == (ssize_t)sizeof alone_hash) have_alone = true;
            close(pfd[0]);
        }
    }
    if (!plans[0].cold || a.count("warm") || plans.size() > 1) shim_warm_rs();
    RunResult r; 
    Hash64 chain;
    for (size_t i = 0; i < plans.size(); i++) {
        const Plan &p = plans[i];
        ExecOptions eo;
        eo.profile = a.count("profile") ? a.at("profile") : p.profile;
        eo.trace = trace && i + 1 == plans.size();
        eo.check_indep = (eo.profile == "C12" && plans.size() == 1) || a.count("indep");
        page.run = (int64_t)p.run;
        alarm(a.count("timeout") ? atoi(a.at("timeout").c_str()) : 60);
        r = execute_plan(p, eo);
        alarm(0);
        chain.u64(r.log_hash);
    }
    if (have_alone && r.log_hash != alone_hash) {
        Violation v; v.prop = "C12"; v.cls = "indep"; v.key = "observation-depends-on-earlier-sessions-of-the-process";
        v.detail = "the last plan of this file is observed differently when the plans before it ran in the same process";
        v.op = -1; v.ses = -1;
        r.viol.push_back(v);
    }
    if (plans.size() > 1) r.log_hash = chain.h;
    std::string js = result_json(plans.back(), r, true);
    if (out) { fputs(js.c_str(), out); fputc('\n', out); fclose(out); }
    return r.viol.empty() ? 0 : 1;
}

// ------------------------------------------------------------------------------------------------ work
struct Agg {
    uint64_t runs = 0, lib_calls = 0, ops = 0, sessions = 0; int64_t sim_us = 0;
    std::map<std::string, int64_t> counts;
    std::set<uint64_t> fps, inter;
    Hash64 chain;
    void flush(FILE *out, uint64_t upto) {
        if (!runs) return;
        std::ostringstream o;
        o << "{\"agg\":1,\"upto\":" << upto << ",\"runs\":" << runs << ",\"lib_calls\":" << lib_calls << ",\"ops\":" << ops << ",\"sessions\":" << sessions << ",\"sim_us\":" << sim_us << ",\"counts\":{";
        bool f = true;
        for (auto &kv : counts) { if (!f) o << ","; f = false; o << jstr(kv.first) << ":" << kv.second; }
        o << "},\"fps\":\"";
        for (uint64_t x : fps) { char b[20]; snprintf(b, sizeof b, "%016llx", (unsigned long long)x); o << b; }
        o << "\",\"inter\":\"";
        for (uint64_t x : inter) { char b[20]; snprintf(b, sizeof b, "%016llx", (unsigned long long)x); o << b; }
        o << "\"}\n";
        fputs(o.str().c_str(), out); fflush(out);
        runs = lib_calls = ops = sessions = 0; sim_us = 0; counts.clear(); fps.clear(); inter.clear();
    }
};



static bool g_sweep = false;
static void run_one(uint64_t seed, uint64_t run, const GenOptions &go, bool cold_process, FILE *out, Agg &agg, bool per_run) {
    Plan p = g_sweep ? generate_sweep_plan(seed, run, go) : generate_plan(seed, run, go);
    if (cold_process && !p.cold) shim_warm_rs();      // pre-selected index whose plan does not ask for a cold start: an ordinary warm run
    ExecOptions eo; eo.profile = go.profile; eo.check_indep = go.profile == "C12";
    if (g_status) { g_status->run = (int64_t)run; g_status->op = -1; g_status->in_call = 0; }
    alarm(30);
    RunResult r = execute_plan(p, eo);
    alarm(0);
    agg.runs++; agg.lib_calls += r.lib_calls; agg.ops += p.ops.size(); agg.sessions += p.sessions.size(); agg.sim_us += p.sim_us;
    for (auto &kv : r.counts) agg.counts[kv.first] += kv.second;
    for (auto &kv : p.gen) agg.counts["net:" + kv.first] += kv.second;
    if (p.cold) agg.counts["cold_start_runs"]++;
    if (g_sweep) { if (!r.fps.empty()) agg.counts["sweep_nontrivial_runs"]++; }     // distinct by construction: one run per (configuration, subset)
    else { for (uint64_t x : r.fps) agg.fps.insert(x); agg.inter.insert(r.interleave_hash); }
    if (!r.viol.empty() || per_run) {
        std::string js = result_json(p, r, false);
        fputs(js.c_str(), out); fputc('\n', out); fflush(out);
    }
}

static std::string first_lines(const std::string &path, size_t maxbytes) {
    std::string t; if (!read_file(path, t)) return "";
    if (t.size() > maxbytes) t.resize(maxbytes);
    return t;
}

static int cmd_work(const std::map<std::string, std::string> &a) {
    uint64_t seed = strtoull(a.count("seed") ? a.at("seed").c_str() : "1", nullptr, 10);
    uint64_t from = strtoull(a.count("from") ? a.at("from").c_str() : "0", nullptr, 10);
    uint64_t to = strtoull(a.count("to") ? a.at("to").c_str() : "1", nullptr, 10);
    double budget = a.count("seconds") ? atof(a.at("seconds").c_str()) : 0;     // optional wall-clock cap for this worker
    GenOptions go = gen_options(a);
    bool per_run = a.count("per-run") > 0;
    g_sweep = a.count("sweep") > 0; g_no_cold = g_sweep;
    FILE *out = fopen(a.count("out") ? a.at("out").c_str() : "/dev/stdout", "a");
    if (!out) return 2;
    std::string asan_pfx = a.count("asan-log") ? a.at("asan-log") : "";
    StatusPage *page = (StatusPage *)mmap(nullptr, sizeof(StatusPage), PROT_READ | PROT_WRITE, MAP_SHARED | MAP_ANONYMOUS, -1, 0);
    memset((void *)page, 0, sizeof *page);
    g_status = page;
    volatile uint64_t *progress = (volatile uint64_t *)mmap(nullptr, 4096, PROT_READ | PROT_WRITE, MAP_SHARED | MAP_ANONYMOUS, -1, 0);
    progress[0] = from;      // next run index the warm child will execute
    progress[1] = 0;         // stop flag (time budget)
    struct timespec t0; clock_gettime(CLOCK_MONOTONIC, &t0);
    auto elapsed = [&] { struct timespec t; clock_gettime(CLOCK_MONOTONIC, &t); return (t.tv_sec - t0.tv_sec) + (t.tv_nsec - t0.tv_nsec) * 1e-9; };
    if (!a.count("verbose")) quiet_stdio();

    if (a.count("runs-file")) {
        // history replay: execute exactly the listed run indices, in this order, in one warm process
        std::string txt; read_file(a.at("runs-file"), txt);
        std::vector<uint64_t> list; { std::istringstream in(txt); uint64_t v; while (in >> v) list.push_back(v); }
        fflush(out);
        pid_t pid = fork();
        if (pid == 0) {
            shim_warm_rs();
            Agg agg;
            g_child_start = list.empty() ? -1 : (int64_t)list[0];
            for (uint64_t idx : list) { progress[0] = idx; run_one(seed, idx, go, false, out, agg, per_run); }
            agg.flush(out, 0); fflush(out); leave(0);
        }
        int wst = 0; waitpid(pid, &wst, 0);
        if (!(WIFEXITED(wst) && WEXITSTATUS(wst) == 0)) {
            int sig = WIFSIGNALED(wst) ? WTERMSIG(wst) : 0, ec = WIFEXITED(wst) ? WEXITSTATUS(wst) : -1;
            std::string log; if (!asan_pfx.empty()) log = first_lines(asan_pfx + "." + std::to_string(pid), 6000);
            std::ostringstream o;
            o << "{\"run\":" << progress[0] << ",\"crash\":1,\"signal\":" << sig << ",\"exit\":" << ec << ",\"op\":" << page->op << ",\"corrupt\":" << page->corrupt
              << ",\"in_call\":" << page->in_call << ",\"codec\":" << page->ses_codec << ",\"what\":" << jstr((const char *)page->what) << ",\"report\":" << jstr(log) << "}\n";
            fputs(o.str().c_str(), out);
        }
        fputs("{\"done\":1}\n", out); fclose(out);
        return 0;
    }

    auto report_crash = [&](pid_t pid, int wst, uint64_t run) {
        std::ostringstream o;
        int sig = WIFSIGNALED(wst) ? WTERMSIG(wst) : 0, ec = WIFEXITED(wst) ? WEXITSTATUS(wst) : -1;
        std::string log;
        if (!asan_pfx.empty()) { log = first_lines(asan_pfx + "." + std::to_string(pid), 6000); }
        o << "{\"run\":" << run << ",\"child_start\":" << progress[2] << ",\"crash\":1,\"signal\":" << sig << ",\"exit\":" << ec << ",\"op\":" << page->op << ",\"corrupt\":" << page->corrupt
          << ",\"in_call\":" << page->in_call << ",\"codec\":" << page->ses_codec << ",\"what\":" << jstr((const char *)page->what) << ",\"report\":" << jstr(log) << "}\n";
        fputs(o.str().c_str(), out); fflush(out);
    };

    // Phase B first in a long-lived warm child (restarted after every crash); the supervisor itself never calls the
    // library, so that the cold-start children forked from it later are pristine.
    while (progress[0] < to && !progress[1]) {
        fflush(out);
        progress[2] = progress[0];
        pid_t pid = fork();
        if (pid == 0) {
            shim_warm_rs();
            Agg agg;
            uint64_t i;
            g_child_start = (int64_t)progress[0];
            for (i = progress[0]; i < to; i++) {
                progress[0] = i;
                if (is_cold_index(seed, i)) continue;
                run_one(seed, i, go, false, out, agg, per_run);
                if (agg.runs >= (g_sweep ? 20000u : 200u)) agg.flush(out, i);
                if (budget > 0 && elapsed() > budget) { progress[1] = 1; i++; break; }
            }
            progress[0] = i;
            agg.flush(out, i);
            fflush(out);
            leave(0);
        }
        int wst = 0; waitpid(pid, &wst, 0);
        if (WIFEXITED(wst) && WEXITSTATUS(wst) == 0) break;
        report_crash(pid, wst, progress[0]);
        progress[0] = progress[0] + 1;
    }
    uint64_t done_upto = progress[1] ? (uint64_t)progress[0] : to;
    // Phase A: cold-start sample, one pristine child per run
    for (uint64_t i = from; i < done_upto; i++) {
        if (!is_cold_index(seed, i)) continue;
        fflush(out);
        pid_t pid = fork();
        progress[2] = i;
        if (pid == 0) {
            Agg agg;
            g_child_start = (int64_t)i;
            run_one(seed, i, go, true, out, agg, per_run);
            agg.flush(out, i + 1);
            fflush(out);
            leave(0);
        }
        int wst = 0; waitpid(pid, &wst, 0);
        if (!(WIFEXITED(wst) && WEXITSTATUS(wst) == 0)) { page->run = (int64_t)i; report_crash(pid, wst, i); }
    }
    std::ostringstream o; o << "{\"done\":1,\"from\":" << from << ",\"upto\":" << done_upto << ",\"wall_s\":" << elapsed() << "}\n";
    fputs(o.str().c_str(), out); fclose(out);
    return 0;
}

int main(int argc, char **argv) {
    if (argc < 2) { fprintf(stderr, "usage: fecsim gen|exec|work ...\n"); return 2; }
    std::string cmd = argv[1];
    auto a = parse_args(argc, argv, 2);
    if (cmd == "gen") return cmd_gen(a);
    if (cmd == "exec") return cmd_exec(a);
    if (cmd == "work") return cmd_work(a);
    fprintf(stderr, "fecsim: unknown command %s\n", cmd.c_str());
    return 2;
}
