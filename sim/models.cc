#include "models.h"
#include <algorithm>
#include <cstring>
#include <cassert>
#include <tuple>
#include <cmath>

// ---------------------------------------------------------------- GF
uint8_t GF::slow_mul(uint8_t a, uint8_t b, int m, uint32_t poly) {
    uint32_t acc = 0, aa = a;
    for (int i = 0; i < m; i++) {
        if (b & (1u << i)) acc ^= aa;
        aa <<= 1;
        if (aa & (1u << m)) aa ^= poly;
    }
    return (uint8_t)acc;
}

GF::GF(int m_) : m(m_), size(1 << m_) {
    poly = (m == 4) ? 0x13u : 0x11Du;
    exp_.assign(size, 0); log_.assign(size, 0);
    uint8_t v = 1;
    for (int i = 0; i < size - 1; i++) {
        exp_[i] = v; log_[v] = (uint8_t)i;
        v = slow_mul(v, 2, m, poly);
    }
    exp_[size - 1] = exp_[0];
}

const GF &gf_for(int m) {
    static GF g4(4), g8(8);
    return m == 4 ? g4 : g8;
}

// ---------------------------------------------------------------- RS
RSModel::RSModel(int m_, int k_, int n_) : m(m_), k(k_), n(n_) {
    const GF &F = gf_for(m);
    auto point = [&](int i) -> uint8_t { return i == 0 ? 0 : F.alpha_pow(i - 1); };
    // denominators d_j = prod_{t<k, t!=j} (x_j - x_t)
    std::vector<uint8_t> den(k);
    for (int j = 0; j < k; j++) {
        uint8_t d = 1;
        for (int t = 0; t < k; t++) if (t != j) d = F.mul(d, point(j) ^ point(t));
        den[j] = d;
    }
    rows.resize(n - k);
    for (int e = k; e < n; e++) {
        std::vector<uint8_t> &row = rows[e - k];
        row.resize(k);
        uint8_t xe = point(e);
        for (int j = 0; j < k; j++) {
            uint8_t num = 1;
            for (int t = 0; t < k; t++) if (t != j) num = F.mul(num, xe ^ point(t));
            row[j] = F.mul(num, F.inv(den[j]));
        }
    }
}

void RSModel::encode(const std::vector<const uint8_t *> &src, int esi, uint8_t *out, size_t E) const {
    const GF &F = gf_for(m);
    const std::vector<uint8_t> &row = rows[esi - k];
    memset(out, 0, E);
    for (int j = 0; j < k; j++) {
        uint8_t c = row[j];
        if (!c) continue;
        const uint8_t *s = src[j];
        if (m == 8) {
            for (size_t b = 0; b < E; b++) out[b] ^= F.mul(c, s[b]);
        } else {
            for (size_t b = 0; b < E; b++) {
                uint8_t hi = F.mul(c, s[b] >> 4), lo = F.mul(c, s[b] & 15);
                out[b] ^= (uint8_t)((hi << 4) | lo);
            }
        }
    }
}

const RSModel &rs_model(int m, int k, int n) {
    static std::map<std::tuple<int, int, int>, std::unique_ptr<RSModel>> cache;
    auto key = std::make_tuple(m, k, n);
    auto it = cache.find(key);
    if (it == cache.end()) {
        static size_t bytes = 0;
        if (bytes > (48u << 20)) { cache.clear(); bytes = 0; }
        bytes += (size_t)k * (size_t)(n - k) + 64;
        it = cache.emplace(key, std::make_unique<RSModel>(m, k, n)).first;
    }
    return *it->second;
}

// ---------------------------------------------------------------- BinCode
void BinCode::finish() {
    cols.assign(n(), {});
    for (uint32_t j = 0; j < r; j++) {
        std::sort(rows[j].begin(), rows[j].end());
        for (uint32_t e : rows[j]) cols[e].push_back(j);
    }
    all_source_cols_even = true;
    for (uint32_t s = 0; s < k; s++) if (cols[s].size() & 1) { all_source_cols_even = false; break; }
}

void BinCode::encode_all(const std::vector<const uint8_t *> &src, std::vector<std::vector<uint8_t>> &rep, size_t E) const {
    rep.assign(r, std::vector<uint8_t>(E, 0));
    for (uint32_t j = 0; j < r; j++) {
        uint8_t *out = rep[j].data();
        for (uint32_t e : rows[j]) {
            if (e == k + j) continue;
            const uint8_t *s = e < k ? src[e] : rep[e - k].data();
            for (size_t b = 0; b < E; b++) out[b] ^= s[b];
        }
    }
}

// RFC 5170, section 5 (left_matrix_init + staircase), indexed by ESI.
std::shared_ptr<const BinCode> h5170(uint32_t k, uint32_t r, uint32_t N1, uint32_t seed) {
    static std::map<std::tuple<uint32_t, uint32_t, uint32_t, uint32_t>, std::shared_ptr<const BinCode>> cache;
    auto key = std::make_tuple(k, r, N1, seed);
    auto it = cache.find(key);
    if (it != cache.end()) return it->second;
    if (cache.size() > 48) cache.clear();

    auto c = std::make_shared<BinCode>();
    c->k = k; c->r = r;
    // has[row] = sorted? we need fast membership: per row a bitset over source columns would be k*r bits; use
    // per-column small vectors instead (columns have N1 or a few more entries).
    std::vector<std::vector<uint32_t>> colrows(k);
    std::vector<uint32_t> rowdeg(r, 0);
    auto has = [&](uint32_t row, uint32_t col) {
        for (uint32_t x : colrows[col]) if (x == row) return true;
        return false;
    };
    auto ins = [&](uint32_t row, uint32_t col) { colrows[col].push_back(row); rowdeg[row]++; };

    PMMS prng(seed);
    uint64_t total = (uint64_t)N1 * k;
    std::vector<uint32_t> u(total);
    for (uint64_t h = 0; h < total; h++) u[h] = (uint32_t)(h % r);
    uint64_t t = 0;
    for (uint32_t j = 0; j < k; j++) {
        for (uint32_t h = 0; h < N1; h++) {
            uint64_t i;
            for (i = t; i < total && has(u[i], j); i++) {}
            if (i < total) {
                do { i = t + prng.rand(total - t); } while (has(u[i], j));
                ins(u[i], j);
                u[i] = u[t];
                t++;
            } else {
                c->no_choice_left++;
                do { i = prng.rand(r); } while (has((uint32_t)i, j));
                ins((uint32_t)i, j);
            }
        }
    }
    uint32_t added = 0;
    for (uint32_t i = 0; i < r; i++) {
        if (rowdeg[i] == 0) {
            uint32_t j = (uint32_t)prng.rand(k);
            ins(i, j); added++;
        }
        if (rowdeg[i] == 1 && k > 1) {      // with k == 1 the RFC's loop could not terminate; nothing to add
            uint32_t j;
            do { j = (uint32_t)prng.rand(k); } while (has(i, j));
            ins(i, j); added++;
        }
    }
    c->extra_entries = added > 0;
    c->rows.assign(r, {});
    for (uint32_t j = 0; j < k; j++) for (uint32_t row : colrows[j]) c->rows[row].push_back(j);
    for (uint32_t i = 0; i < r; i++) {
        c->rows[i].push_back(k + i);
        if (i > 0) c->rows[i].push_back(k + i - 1);
    }
    c->finish();
    cache[key] = c;
    return c;
}

bool twod_factor(uint32_t k, uint32_t r, uint32_t &a, uint32_t &b) {
    // unordered pair {a,b} with a*b = k and a+b = r, a <= b
    for (uint32_t d = 1; (uint64_t)d * d <= k; d++) {
        if (k % d) continue;
        uint32_t l = k / d;
        if (d + l == r) { a = d; b = l; return true; }
    }
    return false;
}

std::shared_ptr<const BinCode> twod_model(uint32_t k, uint32_t r) {
    uint32_t a, b;
    if (k == 0 || !twod_factor(k, r, a, b)) return nullptr;
    // b row checks of a consecutive sources each, then a column checks of stride a
    auto c = std::make_shared<BinCode>();
    c->k = k; c->r = r;
    c->rows.assign(r, {});
    for (uint32_t i = 0; i < b; i++) { for (uint32_t j = 0; j < a; j++) c->rows[i].push_back(i * a + j); c->rows[i].push_back(k + i); }
    for (uint32_t col = 0; col < a; col++) { for (uint32_t j = 0; j < b; j++) c->rows[b + col].push_back(col + a * j); c->rows[b + col].push_back(k + b + col); }
    c->finish();
    return c;
}

// ---------------------------------------------------------------- Peel
void Peel::init(const BinCode *code) {
    c = code;
    known.assign(c->n(), 0);
    unk.resize(c->r);
    for (uint32_t j = 0; j < c->r; j++) unk[j] = (uint32_t)c->rows[j].size();
    known_src = 0;
}

void Peel::add(uint32_t esi) {
    if (known[esi]) return;
    std::vector<uint32_t> stack{esi};
    known[esi] = 1; if (esi < c->k) known_src++;
    while (!stack.empty()) {
        uint32_t e = stack.back(); stack.pop_back();
        for (uint32_t row : c->cols[e]) {
            if (--unk[row] == 1) {
                for (uint32_t x : c->rows[row]) if (!known[x]) {
                    known[x] = 1; if (x < c->k) known_src++;
                    stack.push_back(x);
                    break;
                }
            }
        }
    }
}

// ---------------------------------------------------------------- Rank
RankResult rank_recoverable(const BinCode &c, const std::vector<uint8_t> &known_in) {
    // peel first (cheap), then eliminate on what is left
    Peel p; p.init(&c);
    for (uint32_t e = 0; e < c.n(); e++) if (known_in[e]) p.add(e);
    RankResult res{false, 0, 0, false};
    if (p.all_sources()) { res.recoverable = true; return res; }
    std::vector<int32_t> colidx(c.n(), -1);
    uint32_t nu = 0;
    for (uint32_t e = 0; e < c.n(); e++) if (!p.known[e]) colidx[e] = (int32_t)nu++;
    res.unknowns = nu; res.needed_elimination = true;
    size_t words = (nu + 63) / 64;
    std::vector<std::vector<uint64_t>> M;
    for (uint32_t j = 0; j < c.r; j++) {
        if (p.unk[j] == 0) continue;
        std::vector<uint64_t> row(words, 0);
        for (uint32_t e : c.rows[j]) if (colidx[e] >= 0) row[colidx[e] >> 6] ^= 1ULL << (colidx[e] & 63);
        M.push_back(std::move(row));
    }
    res.rows_used = (uint32_t)M.size();
    if (M.size() < nu) { res.recoverable = false; return res; }
    uint32_t rank = 0;
    for (uint32_t col = 0; col < nu; col++) {
        size_t w = col >> 6; uint64_t bit = 1ULL << (col & 63);
        size_t piv = rank;
        while (piv < M.size() && !(M[piv][w] & bit)) piv++;
        if (piv == M.size()) { res.recoverable = false; return res; }
        std::swap(M[piv], M[rank]);
        for (size_t i = rank + 1; i < M.size(); i++)
            if (M[i][w] & bit) for (size_t x = w; x < words; x++) M[i][x] ^= M[rank][x];
        rank++;
    }
    res.recoverable = true;
    return res;
}
